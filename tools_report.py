#!/venv/bin/python
"""Regenerates the generated blocks of DESIGN.md (kill matrix, seeded-change table) between markers."""
import glob, json, os, re
V = os.path.dirname(os.path.abspath(__file__))
rows = [l.split(None, 3) for l in open(os.path.join(V, 'mutants', 'KILL_MATRIX.txt')) if l.strip()]
notes = {'c02_sel_inverted': 'equivalent inside the generated domain (saturated populations sit far beyond the threshold either way)',
         'c04_bounds': 'equivalent: NumPy itself refuses position -D-1',
         'c09_tol': 'does not break the property (looser optimiser tolerance still recovers the law within 5 %)',
         'c11_state_leak': 'no-op by construction (control for the matrix)'}
km = ['| change | property | result | first mechanism that fired / note |', '|---|---|---|---|']
for r in sorted(rows):
    name, prop, res = r[0], r[1], r[2]
    mech = (r[3].strip() if len(r) > 3 else '') or notes.get(name, '')
    km.append('| `%s` | %s | %s | %s |' % (name, prop, res.lower(), mech))
killed = sum(1 for r in rows if r[2] == 'KILLED')
km.append('')
km.append('%d catalogued changes, %d caught by the quick tier of the property they target; the %d survivors are '
          'equivalent or non-breaking (notes above).' % (len(rows), killed, len(rows) - killed))
sd = ['| id | property | what it needs to manifest (author\'s words, abridged) | first run | after strengthening |', '|---|---|---|---|---|']
for d in sorted(glob.glob(os.path.join(V, 'seeded', '*'))):
    mp = os.path.join(d, 'meta.json')
    if not os.path.exists(mp):
        continue
    m = json.load(open(mp))
    h = m.get('history', [])
    first = 'caught' if h and h[0]['caught'] else 'MISSED'
    last = 'caught (%s)' % h[-1]['mechanisms'].split(' x')[0] if h and h[-1]['caught'] else 'MISSED'
    need = ' '.join(m.get('needs_to_manifest', '').split())[:260]
    sd.append('| %s | %s | %s | %s | %s |' % (os.path.basename(d), m['property'], need.replace('|', '/'), first, last if first == 'MISSED' else '—'))
s = open(os.path.join(V, 'DESIGN.md')).read()
for tag, body in (('KILL-MATRIX', '\n'.join(km)), ('SEEDED', '\n'.join(sd))):
    a, b = '<!-- %s:BEGIN -->' % tag, '<!-- %s:END -->' % tag
    if a in s:
        s = s[:s.index(a) + len(a)] + '\n' + body + '\n' + s[s.index(b):]
open(os.path.join(V, 'DESIGN.md'), 'w').write(s)
print('report blocks updated')
