#!/bin/bash
# usage: tools_seeded.sh <PROP> <src_dir_with patch.diff demo.py meta.txt> [name] [tier]
# Confirms a seeded breaking change in a scratch worktree (suite unchanged, demo fails with / passes without),
# runs the property's check against it, and files it under /verif/seeded/<name>/.
set -u
P="$1"; SRC="$(realpath "$2")"; NAME="${3:-$P}"; TIER="${4:-quick}"
W=/dev/shm/seedchk_$$
git -C /repo worktree add -q --detach "$W" HEAD || exit 3
cleanup() { git -C /repo worktree remove --force "$W" 2>/dev/null; rm -rf "$W"; }
trap cleanup EXIT
cd "$W"
if ! git apply "$SRC/patch.diff"; then echo "RESULT $NAME patch-does-not-apply"; exit 3; fi
suite=$(/venv/bin/python -m pytest -q -p no:cacheprovider test 2>&1 | tail -1)
FLOWCAL_ROOT="$W" MPLBACKEND=Agg timeout 900 /venv/bin/python "$SRC/demo.py" > /tmp/w/demo_with.txt 2>&1; rc_with=$?
git apply -R "$SRC/patch.diff"
FLOWCAL_ROOT="$W" MPLBACKEND=Agg timeout 900 /venv/bin/python "$SRC/demo.py" > /tmp/w/demo_without.txt 2>&1; rc_without=$?
git apply "$SRC/patch.diff"
cd /verif
out=$(RV_REPO="$W" RV_NO_EVIDENCE=1 ./check "$P" --tier "$TIER" 2>&1); rc=$?
mech=$(echo "$out" | grep "observed mechanism" | grep -v "known:" | sed 's/.*observed mechanism //' | tr '\n' ';' | cut -c1-300)
echo "RESULT $NAME suite='$suite' demo_with=$rc_with demo_without=$rc_without check_rc=$rc tier=$TIER mechanisms=$mech"
mkdir -p "/verif/seeded/$NAME"
[ "$SRC" = "$(realpath /verif/seeded/$NAME)" ] || cp "$SRC/patch.diff" "$SRC/demo.py" "/verif/seeded/$NAME/"
/venv/bin/python - "$P" "$NAME" "$SRC" "$suite" "$rc_with" "$rc_without" "$rc" "$TIER" "$mech" <<'PY'
import json, sys, os
p, name, src, suite, rw, rwo, rc, tier, mech = sys.argv[1:]
meta = {'property': p, 'origin': 'written blind by a sub-agent given only the property text and a scratch worktree',
        'needs_to_manifest': open(os.path.join(src, 'meta.txt')).read().strip() if os.path.exists(os.path.join(src, 'meta.txt')) else '',
        'confirmed': {'suite_result_with_change': suite, 'demo_exit_with_change': int(rw), 'demo_exit_without_change': int(rwo),
                      'how': 'scratch worktree of /repo HEAD under /dev/shm: git apply patch.diff; pytest test; demo.py with and without the change'},
        'check': {'command': 'RV_REPO=<scratch> ./check %s --tier %s' % (p, tier), 'exit': int(rc),
                  'caught': int(rc) == 1, 'mechanisms': mech}}
path = '/verif/seeded/%s/meta.json' % name
old = json.load(open(path)) if os.path.exists(path) else {}
hist = old.get('history', [])
hist.append(meta['check'])
meta['history'] = hist
json.dump(meta, open(path, 'w'), indent=1)
PY
exit 0
