#!/bin/bash
# usage: tools_mutant.sh <patch-or-sed-script> <PROP> [tier]
# Applies a patch (git diff format, or a file ending .sed with sed -i commands "file:::expr")
# to a scratch copy of /repo/FlowCal under /dev/shm and runs the check against it.
set -u
P="$(realpath "$1")"; PROP="$2"; TIER="${3:-quick}"
S=$(mktemp -d /dev/shm/rvmut.XXXXXX)
mkdir -p "$S/repo"
cp -r /repo/FlowCal "$S/repo/FlowCal"
mkdir -p "$S/repo/examples" && cp /repo/examples/experiment.xlsx "$S/repo/examples/" 2>/dev/null
( cd "$S/repo" && git init -q . && git add -A >/dev/null && git -c user.email=a@b -c user.name=x commit -qm base )
if [[ "$P" == *.sed ]]; then
  while IFS= read -r line; do
    f="${line%%:::*}"; e="${line#*:::}"
    sed -i "$e" "$S/repo/$f"
  done < "$P"
else
  ( cd "$S/repo" && git apply "$P" ) || { echo "PATCH FAILED"; rm -rf "$S"; exit 3; }
fi
( cd "$S/repo" && git diff --stat | tail -1 )
if ( cd "$S/repo" && git diff --quiet ); then echo "PATCH FAILED (no change applied)"; rm -rf "$S"; exit 3; fi
cd /verif
RV_REPO="$S/repo" RV_NO_EVIDENCE=1 ./check "$PROP" --tier "$TIER" 2>&1 | grep -E "^(VIOLATION|HELD|INCONCLUSIVE|KNOWN|C[0-9]+ tier)" | cut -c1-300 | head -8
rc=${PIPESTATUS[0]}
rm -rf "$S"
exit $rc
