#!/bin/bash
# usage: tools_sweep.sh "<props>" "<seeds>" [tier]   -- prints non-HELD outcomes
cd /verif
for p in $1; do for s in $2; do
  out=$(VERIF_SEED=$s RV_NO_EVIDENCE=1 ./check $p --tier ${3:-quick} 2>&1); rc=$?
  echo "$p seed=$s rc=$rc $(echo "$out" | head -1 | cut -c1-110)"
  if [ $rc -ne 0 ]; then echo "$out" | grep -E "observed|VIOLATION|INCONCLUSIVE|detail" | head -6 | cut -c1-400; fi
done; done
