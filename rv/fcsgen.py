"""
Independent FCS 2.0 / 3.0 / 3.1 writer used as the oracle side of the reader
properties.  Written from the standards; shares no code with FlowCal.io.
Values are packed one at a time with int.to_bytes / struct.pack (no NumPy
views), so a misunderstanding of byte order shared with the reader is unlikely.
"""
import struct

HEADER_LEN = 58


def escape(s, delim):
    return s.replace(delim, delim + delim)


def encode_text(pairs, delim, leading=True, trailing=True):
    """pairs: list of (key, value) strings -> latin-1 bytes following the
    FCS escaping rule."""
    out = delim if leading else ''
    items = []
    for k, v in pairs:
        items.append(escape(k, delim))
        items.append(escape(v, delim))
    out += delim.join(items)
    if trailing and items:
        out += delim
    return out.encode('latin-1')


def big_endian(byteord):
    return byteord in ('4,3,2,1', '2,1')


def pack_value(v, width_bits, datatype, big):
    if datatype == 'I':
        return int(v).to_bytes(width_bits // 8, 'big' if big else 'little')
    if datatype == 'F':
        return struct.pack('>f' if big else '<f', v)
    if datatype == 'D':
        return struct.pack('>d' if big else '<d', v)
    raise ValueError(datatype)


def pack_data(events, widths, datatype, byteord):
    big = big_endian(byteord)
    buf = bytearray()
    for row in events:
        for v, w in zip(row, widths):
            buf += pack_value(v, w, datatype, big)
    return bytes(buf)


def mask_bits(R):
    """number of low bits implied by the declared range R (positive int)."""
    R = int(R)
    return (R - 1).bit_length() if R >= 1 else 0


def default_ranges(spec):
    r = spec.get('ranges')
    if r is None:
        r = [(1 << w) if spec['datatype'] == 'I' else 262144 for w in spec['widths']]
    return r


def expected_matrix(spec):
    """The matrix the reader must return, as lists of python ints / floats."""
    spec = dict(spec, ranges=default_ranges(spec))
    if spec['datatype'] == 'I':
        out = []
        for row in spec['events']:
            out.append([int(v) & ((1 << mask_bits(R)) - 1)
                        for v, R in zip(row, spec['ranges'])])
        return out
    if spec['datatype'] == 'F':
        return [[struct.unpack('<f', struct.pack('<f', v))[0] for v in row]
                for row in spec['events']]
    return [[float(v) for v in row] for row in spec['events']]


def _f8(n):
    s = '%8d' % n
    assert len(s) == 8, n
    return s


def build(spec):
    """Build the bytes of an FCS file.

    spec keys (all but the first four optional):
      version   'FCS2.0' | 'FCS3.0' | 'FCS3.1'
      datatype  'I' | 'F' | 'D'   (or anything else, for refusal layouts)
      widths    list of $PnB
      events    list of rows
      byteord   '$BYTEORD' text            (default '1,2,3,4')
      ranges    list of $PnR ints          (default 2**width for I, 262144 F/D)
      names     list of $PnN               (default P1..)
      delim     delimiter char             (default '/')
      offsets   'header' | 'text'          where the DATA offsets live
      end_conv  'last' | 'onepast'         DATA end offset convention
      pad_before_data / pad_after_data     number of filler bytes
      extra     list of (key,value) appended to TEXT (after required ones)
      override  dict key->value|None replacing/deleting generated keywords
      pne/png/pnv/pns  per-parameter lists (None entries omitted)
      stext     list of (k,v) for a supplemental TEXT segment (3.x)
      analysis  list of (k,v) for an ANALYSIS segment
      analysis_offsets 'header'|'text'
      mode      $MODE (default 'L');  tot_override, par_override
      text_begin  offset of TEXT (default 58)
      data_bytes  raw bytes to use as DATA instead of packing events
      key_order 'std'|'reversed'|'shuffled' + rng
    Returns (bytes, layout dict with the offsets used).
    """
    version = spec['version']
    datatype = spec['datatype']
    widths = list(spec['widths'])
    events = spec['events']
    D = len(widths)
    byteord = spec.get('byteord', '1,2,3,4')
    ranges = spec.get('ranges')
    if ranges is None:
        ranges = [(1 << w) if datatype == 'I' else 262144 for w in widths]
    names = spec.get('names') or ['P%d' % (i + 1) for i in range(D)]
    delim = spec.get('delim', '/')
    offsets = spec.get('offsets', 'header')
    end_conv = spec.get('end_conv', 'last')
    is3 = version in ('FCS3.0', 'FCS3.1')

    if 'data_bytes' in spec:
        data = spec['data_bytes']
    else:
        data = pack_data(events, widths, datatype if datatype in 'IFD' else 'I', byteord)

    W = 12   # fixed width of offset values in TEXT so TEXT length is stable

    def kv_list(bd, ed, bs, es, ba, ea):
        kv = []
        if is3:
            kv += [('$BEGINANALYSIS', str(ba).rjust(W, '0') if ba else '0'),
                   ('$ENDANALYSIS', str(ea).rjust(W, '0') if ea else '0'),
                   ('$BEGINSTEXT', str(bs).rjust(W, '0') if bs else '0'),
                   ('$ENDSTEXT', str(es).rjust(W, '0') if es else '0'),
                   ('$BEGINDATA', str(bd).rjust(W, '0')),
                   ('$ENDDATA', str(ed).rjust(W, '0'))]
        kv += [('$BYTEORD', byteord), ('$DATATYPE', datatype),
               ('$MODE', spec.get('mode', 'L')), ('$NEXTDATA', '0'),
               ('$PAR', str(spec.get('par_override', D))),
               ('$TOT', str(spec.get('tot_override', len(events))))]
        for i in range(D):
            n = i + 1
            kv.append(('$P%dB' % n, str(widths[i])))
            kv.append(('$P%dR' % n, str(ranges[i])))
            if names[i] is not None:
                kv.append(('$P%dN' % n, names[i]))
            for key, lst in (('E', spec.get('pne')), ('G', spec.get('png')),
                             ('V', spec.get('pnv')), ('S', spec.get('pns'))):
                if lst is not None and lst[i] is not None:
                    kv.append(('$P%d%s' % (n, key), str(lst[i])))
        kv += list(spec.get('extra', []))
        ov = spec.get('override') or {}
        if ov:
            kv = [(k, ov[k]) if k in ov and ov[k] is not None else (k, v)
                  for k, v in kv if not (k in ov and ov[k] is None)]
            have = set(k for k, _ in kv)
            kv += [(k, v) for k, v in ov.items() if v is not None and k not in have]
        order = spec.get('key_order', 'std')
        if order == 'reversed':
            kv = kv[::-1]
        elif order == 'shuffled':
            idx = spec['rng'].permutation(len(kv))
            kv = [kv[i] for i in idx]
        return kv

    text_begin = origin = spec.get('text_begin', HEADER_LEN)
    stext = spec.get('stext')
    analysis = spec.get('analysis')
    # two passes: sizes do not depend on offset values (fixed width W)
    layout = None
    bd = ed = bs = es = ba = ea = 0
    for _ in range(3):
        tz = spec.get('text_offsets', 'same') == 'zero' and offsets == 'header'
        az = (spec.get('text_offsets', 'same') == 'zero'
              and spec.get('analysis_offsets', 'header') == 'header')
        # 'other': TEXT declares different (wrong) DATA offsets while the HEADER holds the right ones;
        # the HEADER has priority, so the file must still load correctly
        to = 4 if (spec.get('text_offsets') == 'other' and offsets == 'header') else 0
        text = encode_text(kv_list(0 if tz else bd + to, 0 if tz else ed + to, bs, es,
                                   0 if az else ba, 0 if az else ea),
                           delim, trailing=spec.get('text_trailing', True))
        sb = encode_text(stext, delim, leading=spec.get('stext_leading', True)) if stext is not None else b''
        if stext is not None and spec.get('stext_position') == 'before_text':
            # supplemental TEXT between HEADER and primary TEXT (segment order is free in FCS 3.x)
            bs, es = origin, origin + len(sb) - 1
            text_begin = es + 1 + spec.get('pad_before_stext', 0)
        pos = text_begin + len(text)
        text_end = pos - 1
        if stext is not None and spec.get('stext_position') != 'before_text':
            pos += spec.get('pad_before_stext', 0)
            bs, es = pos, pos + len(sb) - 1
            pos += len(sb)
        elif stext is None:
            bs = es = 0
        pos += spec.get('pad_before_data', 0)
        bd = pos
        ed = pos + len(data) - 1 + (1 if end_conv == 'onepast' else 0)
        pos += len(data)
        pos += spec.get('pad_after_data', 0)
        if analysis is not None:
            ab = encode_text(analysis, delim, leading=spec.get('analysis_leading', True))
            ba, ea = pos, pos + len(ab) - 1
            pos += len(ab)
        else:
            ab = b''
            ba = ea = 0
    hdr_bd, hdr_ed = (bd, ed) if offsets == 'header' else (0, 0)
    if spec.get('analysis_offsets', 'header') == 'header':
        hdr_ba, hdr_ea = ba, ea
    else:
        hdr_ba, hdr_ea = 0, 0
    ho = spec.get('header_override') or {}
    hvals = {'text_begin': text_begin, 'text_end': text_end, 'data_begin': hdr_bd,
             'data_end': hdr_ed, 'analysis_begin': hdr_ba, 'analysis_end': hdr_ea}
    hvals.update(ho)
    header = (version.ljust(10) + _f8(hvals['text_begin']) + _f8(hvals['text_end'])
              + _f8(hvals['data_begin']) + _f8(hvals['data_end'])).encode('ascii')
    if spec.get('blank_analysis_header') and not (hvals['analysis_begin'] or hvals['analysis_end']):
        header += b' ' * 16
    else:
        header += (_f8(hvals['analysis_begin']) + _f8(hvals['analysis_end'])).encode('ascii')
    fill = spec.get('fill_byte', b' ')
    out = bytearray(header)
    segs = [(text_begin, text)] + ([(bs, sb)] if stext is not None else [])
    for off, blob in sorted((sg for sg in segs if sg[1]), key=lambda t: t[0]):
        out += fill * (off - len(out))
        assert len(out) == off, (len(out), off)
        out += blob
    out += fill * (bd - len(out))
    out += data
    out += fill * spec.get('pad_after_data', 0)
    if analysis is not None:
        assert len(out) == ba, (len(out), ba)
        out += ab
    if end_conv == 'onepast' and len(out) <= ed and not spec.get('no_onepast_pad'):
        # the byte the "one past" offset points at must exist for files whose
        # DATA is last; writers using this convention always have it (next segment)
        out += fill * (ed + 1 - len(out))
    out += fill * spec.get('pad_tail', 0)
    layout = {'text_begin': text_begin, 'text_end': text_end, 'data_begin': bd,
              'data_end': ed, 'stext': (bs, es), 'analysis': (ba, ea),
              'data_len': len(data), 'file_len': len(out)}
    return bytes(out), layout
