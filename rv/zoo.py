"""Sample zoo: FCSData fixtures produced through the real loader from files
written by rv.fcsgen, plus helpers to read their metadata through public accessors."""
import os

import numpy as np

from rv import fcsgen

META_VIEWS = ('channels', 'range', 'resolution', 'amplification_type', 'amplifier_gain',
              'detector_voltage', 'channel_labels')
SCALAR_ATTRS = ('infile', 'data_type', 'time_step', 'acquisition_start_time', 'acquisition_end_time')

RES_CHOICES = (256, 1024, 4096, 65536, 262144, 1000, 1023)
NAMES = ('FSC-H', 'SSC-H', 'FL1-H', 'FL2-H', 'FL3-H', 'FL4-A', 'FL5-W', 'B8')


def per_channel(s):
    """list (one record per column) of the seven per-channel metadata views."""
    n = len(s.channels)
    out = []
    # accessors are called with explicit positions: with channels=None they go through the channel NAMES, which is
    # ambiguous (first match) for a sample holding the same channel twice
    ix = list(range(n))
    rng_ = s.range(ix)
    res = s.resolution(ix)
    at = s.amplification_type(ix)
    ag = s.amplifier_gain(ix)
    dv = s.detector_voltage(ix)
    lb = s.channel_labels(ix)
    lens = [len(x) for x in (rng_, res, at, ag, dv, lb)]
    if any(l != n for l in lens):
        # the views disagree about the number of channels: no per-column record can be formed (never equal to a model's)
        return [('views-misaligned', n, tuple(lens))]
    for i in range(n):
        r = rng_[i]
        out.append((s.channels[i], None if r is None else [float(r[0]), float(r[1])], res[i], at[i], ag[i], dv[i], lb[i]))
    return out


def meta(s, with_range=True):
    d = {}
    d['channels'] = tuple(s.channels)
    ix = list(range(len(s.channels)))      # by position (names may repeat after indexing with repeats)
    if with_range:
        d['range'] = [None if r is None else [float(x) for x in r] for r in s.range(ix)]
    d['resolution'] = list(s.resolution(ix))
    d['amplification_type'] = list(s.amplification_type(ix))
    d['amplifier_gain'] = list(s.amplifier_gain(ix))
    d['detector_voltage'] = list(s.detector_voltage(ix))
    d['channel_labels'] = list(s.channel_labels(ix))
    d['text'] = dict(s.text)
    d['analysis'] = dict(s.analysis)
    for a in SCALAR_ATTRS:
        d[a] = getattr(s, a)
    return d


def write_and_load(FlowCal, spec, path):
    raw, lay = fcsgen.build(spec)
    with open(path, 'wb') as fh:
        fh.write(raw)
    return FlowCal.io.FCSData(path)


def int_spec(rng, n=200, d=None, res=None, with_time=False, all_log=False, all_lin=False,
             limits=True, version=None, width=None, names=None):
    """Integer sample spec with distinct per-column metadata in every attribute."""
    D = int(d if d is not None else rng.integers(2, 7))
    names = list(names or NAMES[:D])
    if with_time:
        names[-1] = str(rng.choice(['Time', 'TIME', 'time']))
    ranges, widths = [], []
    for j in range(D):
        R = int(res if res is not None else rng.choice(RES_CHOICES))
        ranges.append(R)
    maxR = max(ranges)
    w = width or (16 if maxR <= 65536 and rng.random() < 0.7 else 32)
    if maxR > (1 << w):
        w = 32
    widths = [w] * D
    pne, png, pnv, pns = [], [], [], []
    for j in range(D):
        is_log = (rng.random() < 0.5 or all_log) and not all_lin
        if with_time and j == D - 1:
            is_log = False
        if is_log:
            a0 = str(rng.choice(['4', '4.0', '5', '4.5', '3', '2.5', '8']))
            a1 = str(rng.choice(['1', '0', '1.0', '0.1', '10', '0.0']))
            pne.append('%s,%s' % (a0, a1))
            png.append(None)
        else:
            pne.append(str(rng.choice(['0,0', '0.0,0.0', '0,0.0'])))
            png.append(None if rng.random() < 0.35 else str(rng.choice(['1', '2', '0.5', '3.7', '1.0', '16'])))
        pnv.append(None if rng.random() < 0.3 else str(int(rng.integers(200, 900)) + j))
        pns.append(None if rng.random() < 0.3 else 'label-%d %s' % (j, names[j]))
    cols = []
    for j in range(D):
        R = ranges[j]
        c = rng.integers(0, R, size=n)
        if limits and n >= 8:
            sp = np.array([0, 1, R - 2, R - 1, 0, R - 1])
            pos = rng.choice(n, size=min(len(sp), n), replace=False)
            c[pos] = sp[:len(pos)]
        if with_time and j == D - 1:
            c = np.sort(rng.integers(0, R, size=n))
        cols.append([int(x) for x in c])
    events = [[cols[j][i] for j in range(D)] for i in range(n)]
    spec = dict(version=version or str(rng.choice(['FCS2.0', 'FCS3.0', 'FCS3.1'])), datatype='I', widths=widths,
                events=events, ranges=ranges, names=names, pne=pne, png=png, pnv=pnv, pns=pns,
                byteord=str(rng.choice(['4,3,2,1', '1,2,3,4'])),
                extra=[('$CYT', 'rv-zoo'), ('$DATE', '05-JAN-2020'), ('$BTIM', '10:00:00'), ('$ETIM', '10:01:30')])
    if with_time:
        spec['extra'].append(('$TIMESTEP', '0.01'))
    if version != 'FCS2.0' and spec['version'] != 'FCS2.0' and rng.random() < 0.3:
        # a non-empty ANALYSIS segment (gates / statistics stored by the acquisition software): part of the sample's metadata
        spec['analysis'] = [('GATE1', '100,200,300,400'), ('G1 %TOTAL', '%.1f' % float(rng.uniform(1, 99))), ('ANALYST', 'rv-zoo')]
    return spec


def float_spec(rng, n=200, d=None, negatives=True, names=None, dt='F'):
    D = int(d if d is not None else rng.integers(2, 6))
    names = list(names or NAMES[:D])
    cols = []
    for j in range(D):
        c = np.abs(rng.lognormal(6, 2, size=n))
        c = np.minimum(c, 262143.0)
        if negatives:
            neg = rng.random(n) < 0.1
            c = np.where(neg, -np.abs(rng.normal(0, 50, size=n)), c)
        cols.append(c.astype('f4' if dt == 'F' else 'f8'))
    events = [[float(cols[j][i]) for j in range(D)] for i in range(n)]
    w = 32 if dt == 'F' else 64
    return dict(version='FCS3.0', datatype=dt, widths=[w] * D, events=events, ranges=[262144] * D,
                names=names, pne=['0,0'] * D, png=[None if rng.random() < 0.5 else '1' for _ in range(D)],
                pnv=[str(400 + j) for j in range(D)], pns=[None] * D,
                byteord=str(rng.choice(['4,3,2,1', '1,2,3,4'])), extra=[('$CYT', 'rv-zoo-float')])


def power_curves(rng, k):
    """k distinct increasing standard curves x -> sign(x) e^b |x|^m (as FlowCal's std_crv)."""
    out = []
    for i in range(k):
        m = float(rng.uniform(0.85, 1.25))
        b = float(rng.uniform(0, 7))
        out.append((m, b))
    return out


def make_curve(m, b):
    def sc(x):
        return np.sign(x) * np.exp(b) * (np.abs(x) ** m)
    sc.params = (m, b)
    return sc


def derive(rng, s, keep_channels=False, min_events=0):
    """A sample as it looks in the middle of an analysis: the result of one or two earlier public operations that keep
    the meaning of every remaining event and column (event stride / mask / permutation, channel permutation or subset,
    copy, view, pickle round trip).  -> (sample, tag).  Oracles work from the object they are handed, so a derived
    sample is judged exactly like a fresh one; what it adds is state left behind by the earlier operations (memory
    layout, metadata carried over, cached attributes)."""
    import copy
    import pickle
    tags = []
    for _ in range(int(rng.integers(1, 3))):
        N, D = s.shape
        op = int(rng.integers(7))
        if op == 0 and N > min_events + 2:
            s = s[::2] if (N + 1) // 2 >= min_events else s
            tags.append('stride')
        elif op == 1 and N > min_events:
            m = rng.random(N) < 0.8
            if int(m.sum()) >= max(min_events, 1):
                s = s[m]
                tags.append('mask')
        elif op == 2 and N >= 2:
            s = s[rng.permutation(N)]
            tags.append('permuted-events')
        elif op == 3 and D >= 2 and not keep_channels:
            k = int(rng.integers(2, D + 1))
            s = s[:, [int(x) for x in rng.permutation(D)[:k]]]
            tags.append('channels-rearranged')
        elif op == 4:
            s = s.copy() if rng.random() < 0.5 else copy.deepcopy(s)
            tags.append('copy')
        elif op == 5:
            s = pickle.loads(pickle.dumps(s, protocol=int(rng.integers(2, 6))))
            tags.append('pickle')
        elif op == 6:
            s = s.view()
            tags.append('view')
    return s, '+'.join(tags) or 'fresh'


def bystander(F, rng, s, nops=None):
    """Library operations applied to ``s`` itself or to a relative of it (copy, slice, view, astype), results discarded.
    None of them is documented to change its input, so every later question asked of ``s`` must get the answer a fresh
    load gives: the history clauses run this between their queries.  -> tag."""
    tags = []
    for _ in range(int(rng.integers(1, 4)) if nops is None else nops):
        N, D = s.shape
        rel = int(rng.integers(6))
        t = [s, s.copy(), s[:, :], s[::2] if N >= 2 else s[:], s.view(), s.astype(float)][rel]
        rname = ['self', 'copy', 'slice', 'stride', 'view', 'astype'][rel]
        chs = [int(x) for x in rng.permutation(D)[:int(rng.integers(1, D + 1))]]
        chn = [t.channels[c] if rng.random() < 0.5 else c for c in chs]
        op = int(rng.integers(7))
        try:
            if op == 0:
                F.transform.to_rfi(t, chn if rng.random() < 0.7 else None)
                oname = 'to_rfi'
            elif op == 1:
                crv = [make_curve(1.0 + 0.05 * i, 2.0 + i) for i in range(len(chs))]
                F.transform.to_mef(t, chn if rng.random() < 0.7 else None, crv, chn)
                oname = 'to_mef'
            elif op == 2:
                F.transform.transform(t, chn, lambda x: x * 3.0 + 7.0)
                oname = 'transform'
            elif op == 3:
                F.gate.high_low(t, chn)
                oname = 'high_low'
            elif op == 4:
                t.hist_bins(chn, None if max(r[1] for r in t.range(chs)) <= 5000 else 32,
                            str(rng.choice(['linear', 'log', 'logicle'])))
                oname = 'hist_bins'
            elif op == 5:
                F.stats.mean(t, chn)
                F.stats.median(t, chn)
                oname = 'stats'
            else:
                if D >= 2 and N >= 1:
                    F.gate.density2d(t, [0, D - 1], gate_fraction=0.5, xscale=str(rng.choice(['linear', 'log', 'logicle'])),
                                     yscale=str(rng.choice(['linear', 'log', 'logicle'])), bins=16)
                oname = 'density2d'
        except Exception as e:   # noqa  (what the operation answers is another property's business)
            oname = 'raised'
        tags.append(rname + '.' + oname)
    return '+'.join(tags)


def arith(rng, s):
    """A sample whose values went through arithmetic before (as after de-binning, dithering, background subtraction or a
    unit change done by hand): a float copy of ``s`` with fractional values, same channels and settings.  -> (sample, tag)."""
    t = s.astype(float)
    op = int(rng.integers(4))
    if op == 0:
        t += rng.uniform(0.0, 0.999, size=t.shape)       # dithered counts
        tag = 'dithered'
    elif op == 1:
        t += 0.5                                         # bin centres
        tag = 'bin-centres'
    elif op == 2:
        t *= 0.999                                       # rescaled
        tag = 'rescaled'
    else:
        t -= 0.25 * (np.asarray(t) > 1)                  # a small background subtracted
        tag = 'background'
    return t, tag


def edit_in_place(rng, s):
    """The caller changes the values of its own container in place (flooring zeros, adding an offset, rescaling,
    reversing the event order, overwriting one column): the same object, other values.  -> tag."""
    op = int(rng.integers(5))
    a = np.asarray(s)
    if a.size == 0:
        return 'empty'
    if op == 0:
        s[...] = np.where(a <= 0, 1, a)
        return 'floored'
    if op == 1:
        s += 1
        return 'offset'
    if op == 2:
        s[...] = a[::-1].copy()
        return 'reversed'
    if op == 3:
        s[...] = (a // 2 + 1) if a.dtype.kind in 'iu' else (a * 0.5 + 1.0)
        return 'rescaled'
    j = int(rng.integers(a.shape[1])) if a.ndim == 2 else None
    if j is None:
        s[...] = a[0]
    else:
        s[:, j] = a[:, (j + 1) % a.shape[1]].astype(a.dtype)
    return 'column-overwritten'
