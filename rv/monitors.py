"""Runtime monitors attached from the harness by rebinding module / class
attributes of the imported FlowCal (no source edits).  Each wrapper snapshots the
pre-state, lets the real function run, then evaluates an independent oracle and
RECORDS the verdict in the Ctx (never raises into the monitored program), so the
same monitors run under direct drivers, the Excel pipeline and the repo's tests.
"""
import functools
import math

import numpy as np

from rv import core, zoo
from rv.fingerprint import is_sample


class Monitors(object):
    def __init__(self, ctx, FlowCal, tag='direct'):
        self.ctx = ctx
        self.F = FlowCal
        self.tag = tag
        self.cid = None
        self.orig = []
        self.depth = 0
        self.judge_limits = False   # C07 clause (bitwise limits) judged only where claimed

    # -- plumbing ---------------------------------------------------------------
    def rebind(self, owner, name, wrapper_factory):
        orig = getattr(owner, name)
        w = wrapper_factory(orig)
        try:
            functools.update_wrapper(w, orig)
        except Exception:   # noqa
            pass
        w.__rv_orig__ = orig
        self.orig.append((owner, name, orig))
        setattr(owner, name, w)

    def detach(self):
        for owner, name, orig in reversed(self.orig):
            setattr(owner, name, orig)
        self.orig = []

    def chk(self, ok, mech, **detail):
        detail['workload'] = self.tag
        return self.ctx.check(ok, mech, self.cid, **detail)

    # -- ledger of earlier results: what a call returned is the caller's from then on -----------------
    LEDGER_LEN, LEDGER_MAX_ELEMS = 3, 60000

    def call(self, tag, orig, *a, **k):
        """orig(*a, **k) with the ledger around it: the results of the last few monitored calls are fingerprinted just
        before this call (whatever the driver did to them in between is the driver's business) and again just after it;
        a difference was made by this call.  Nested monitored calls are part of the outer one."""
        from rv.fingerprint import fp
        L = self.__dict__.setdefault('_ledger', [])
        outer = not self.__dict__.get('_ldepth', 0)
        if outer:
            for e in L:
                e[2] = fp(e[1], ident=False)
        self._ldepth = self.__dict__.get('_ldepth', 0) + 1
        try:
            out = orig(*a, **k)
        finally:
            self._ldepth -= 1
        if outer:
            try:
                for e in L:
                    self.ctx.counters['chk_ledger'] += 1
                    now = fp(e[1], ident=False)
                    if not self.chk(now == e[2], e[0] + ':earlier-result-changed-by-later-call', later_call=tag):
                        e[2] = now
                n = sum(int(np.size(x)) for x in (out if isinstance(out, tuple) else (out,)) if isinstance(x, np.ndarray))
                if n <= self.LEDGER_MAX_ELEMS and out is not None:
                    L.append([tag, out, None])
                    del L[:-self.LEDGER_LEN]
            except Exception as e_:   # noqa
                self.ctx.note('oracle-error ledger: ' + core.exc_str(e_))
                self.ctx.counters['oracle_errors'] += 1
        return out

    # -- C03 / C06 / C07: unit conversions -------------------------------------
    def attach_transform(self):
        T = self.F.transform
        self.rebind(T, 'to_rfi', lambda orig: self._wrap_to_rfi(orig))
        self.rebind(T, 'to_mef', lambda orig: self._wrap_to_mef(orig))
        self.rebind(T, 'transform', lambda orig: self._wrap_transform(orig))

    def _wrap_to_rfi(self, orig):
        def to_rfi(data, channels=None, amplification_type=None, amplifier_gain=None, resolution=None):
            from rv.fingerprint import fp
            pre = snapshot(data)
            args = (channels, amplification_type, amplifier_gain, resolution)
            fa = [fp(a) for a in args]
            snap = [list(a) if isinstance(a, list) else a for a in args]       # the values as the caller passed them
            out = self.call('rfi', orig, data, channels, amplification_type, amplifier_gain, resolution)
            try:
                self.chk([fp(a) for a in args] == fa, 'rfi:caller-argument-mutated',
                         which=[n for n, a, b in zip(('channels', 'amplification_type', 'amplifier_gain', 'resolution'),
                                                     [fp(a) for a in args], fa) if a != b])
                channels, amplification_type, amplifier_gain, resolution = snap
                oracle_to_rfi(self, pre, data, channels, amplification_type, amplifier_gain, resolution, out)
            except Exception as e:   # noqa  oracle crash = harness problem, recorded, not a verdict
                self.ctx.note('oracle-error to_rfi: ' + core.exc_str(e))
                self.ctx.counters['oracle_errors'] += 1
            return out
        return to_rfi

    def _wrap_to_mef(self, orig):
        def to_mef(data, channels, sc_list, sc_channels=None):
            from rv.fingerprint import fp
            pre = snapshot(data)
            args = (channels, sc_list, sc_channels)
            fa = [fp(a) for a in args]
            snap = [list(a) if isinstance(a, list) else a for a in args]
            out = self.call('mef', orig, data, channels, sc_list, sc_channels)
            try:
                self.chk([fp(a) for a in args] == fa, 'mef:caller-argument-mutated',
                         which=[n for n, a, b in zip(('channels', 'sc_list', 'sc_channels'), [fp(a) for a in args], fa) if a != b])
                channels, sc_list, sc_channels = snap
                oracle_to_mef(self, pre, data, channels, sc_list, sc_channels, out)
            except Exception as e:   # noqa
                self.ctx.note('oracle-error to_mef: ' + core.exc_str(e))
                self.ctx.counters['oracle_errors'] += 1
            return out
        return to_mef

    def _wrap_transform(self, orig):
        def transform(data, channels, transform_fxn, def_channels=None):
            pre = snapshot(data)
            out = self.call('transform', orig, data, channels, transform_fxn, def_channels)
            try:
                oracle_transform(self, pre, data, channels, transform_fxn, def_channels, out)
            except Exception as e:   # noqa
                self.ctx.note('oracle-error transform: ' + core.exc_str(e))
                self.ctx.counters['oracle_errors'] += 1
            return out
        return transform


# ------------------------------------------------------------------------------
# helpers
# ------------------------------------------------------------------------------

class Snap(object):
    __slots__ = ('f64', 'raw', 'meta', 'per', 'sample', 'shape', 'dtype')


def snapshot(data):
    s = Snap()
    a = np.asarray(data)
    s.raw = np.array(a, copy=True)
    s.f64 = np.array(a, dtype=np.float64, copy=True)      # C-contiguous, same strides as data.copy().astype(float64)
    s.sample = is_sample(data)
    s.shape = a.shape
    s.dtype = a.dtype
    s.meta = zoo.meta(data) if s.sample else None
    s.per = zoo.per_channel(data) if s.sample else None
    return s


def norm_channels(data, channels, default=None):
    """oracle-side normalisation of a channel argument -> (list of positions, was_scalar)."""
    if channels is None:
        channels = default
    scalar = not (hasattr(channels, '__iter__') and not isinstance(channels, str))
    lst = [channels] if scalar else list(channels)
    D = data.shape[1] if data.ndim > 1 else data.shape[0]
    pos = []
    for c in lst:
        if isinstance(c, str):
            pos.append(list(data.channels).index(c))
        else:
            c = int(c)
            pos.append(c if c >= 0 else D + c)
    return pos, scalar


def file_settings(data, name, occurrence=0):
    """Amplifier settings of channel `name` derived by the oracle from the keywords (for a name recorded more than once:
    of its `occurrence`-th parameter in file order)."""
    text = data.text
    cands = sorted(int(k[2:-1]) for k, v in text.items()
                   if k.startswith('$P') and k.endswith('N') and k[2:-1].isdigit() and v == name)
    if not cands:
        return None
    n = cands[min(occurrence, len(cands) - 1)]
    pne = text.get('$P%dE' % n)
    at = None
    if pne is not None:
        a = [float(x) for x in pne.split(',')]
        if a[0] != 0 and a[1] == 0:
            a[1] = 1.0
        at = (a[0], a[1])
    r = int(float(text['$P%dR' % n]))
    g = text.get('$P%dG' % n)
    if g is None and 'FlowJoCollectorsEdition' in text.get('CREATOR', ''):
        g = text.get('CytekP%02dG' % n)
    try:
        g = float(g) if g is not None else None
    except ValueError:
        g = None
    return at, r, g


def meta_equal_except_range(mon, pre, out, mech):
    if not pre.sample:
        return True
    ok = is_sample(out)
    mon.chk(ok, mech + ':class-lost', type=type(out).__name__)
    if not ok:
        return False
    m = zoo.meta(out, with_range=False)
    bad = [k for k in m if k != 'range' and not _eq(m[k], pre.meta[k])]
    return mon.chk(not bad, mech + ':metadata-changed', keys=bad,
                   got={k: m[k] for k in bad[:3]}, want={k: pre.meta[k] for k in bad[:3]})


def _eq(a, b):
    try:
        if bool(a == b):
            return True
    except Exception:   # noqa
        pass
    try:                               # NaN limits after a degenerate conversion compare equal to themselves
        if a is not None and b is not None and np.array_equal(np.asarray(a, dtype=float), np.asarray(b, dtype=float), equal_nan=True):
            return True
    except Exception:   # noqa
        pass
    return repr(a) == repr(b)


def input_unchanged(mon, pre, data, mech):
    a = np.asarray(data)
    ok = a.shape == pre.shape and a.dtype == pre.dtype and a.tobytes() == pre.raw.tobytes()
    if ok and pre.sample:
        m = zoo.meta(data)
        bad = [k for k in m if not _eq(m[k], pre.meta[k])]
        ok = not bad
    return mon.chk(ok, mech + ':input-mutated')


def limits_follow_events(mon, pre, out, positions, mech):
    """C07: bitwise, each converted channel's limits are the values events at the old limits now have."""
    if not (pre.sample and is_sample(out)):
        return
    rng_out = [out.range(p_) for p_ in range(np.asarray(out).shape[1])]      # by position (a name may be recorded twice)
    for p in positions:
        r0 = pre.meta['range'][p]
        r1 = rng_out[p]
        if r0 is None or r1 is None:
            continue
        col0 = pre.f64[:, p]
        col1 = np.asarray(out)[:, p]
        for side in (0, 1):
            idx = np.nonzero(col0 == r0[side])[0]
            if len(idx) == 0:
                mon.ctx.counters['c07_no_event_at_limit'] += 1
                continue
            lim = np.float64(r1[side])
            vals = col1[idx]
            ok = bool(np.all(vals == lim))
            mon.ctx.counters['chk_c07_limit_events'] += 1
            if not mon.judge_limits:
                if not ok:
                    mon.ctx.note('C07 clause (observed, judged by C07 only): limit differs from event value')
                continue
            mon.chk(ok, mech + ':limit-not-event-value', channel=int(p), side=side,
                    limit=float(lim), event_value=float(vals[0]), old_limit=float(r0[side]),
                    ulp=float(abs(vals[0] - lim) / max(np.spacing(abs(lim)), 1e-300)))
    # unconverted channels keep their limits
    for p in range(len(rng_out)):
        if p not in positions:
            mon.chk(_eq(rng_out[p], pre.meta['range'][p]) or
                    (rng_out[p] is not None and list(map(float, rng_out[p])) == pre.meta['range'][p]),
                    mech + ':unconverted-range-changed', channel=p,
                    got=rng_out[p], want=pre.meta['range'][p])


def oracle_to_rfi(mon, pre, data, channels, at_arg, ag_arg, r_arg, out):
    if data.ndim != 2:
        mon.ctx.note('to_rfi on non-2D input (not judged)')
        return
    pos, scalar = norm_channels(data, channels, default=list(range(data.shape[1])))
    k = len(pos)
    if scalar:
        ats, ags, rs = [at_arg], [ag_arg], [r_arg]
    else:
        ats = list(at_arg) if at_arg is not None else [None] * k
        ags = list(ag_arg) if ag_arg is not None else [None] * k
        rs = list(r_arg) if r_arg is not None else [None] * k
    outa = np.asarray(out)
    mon.chk(outa.shape == pre.shape and outa.dtype == np.float64, 'rfi:shape-dtype',
            shape=list(outa.shape), dtype=str(outa.dtype))
    if len(set(pos)) != len(pos):
        mon.ctx.note('to_rfi with repeated channel (not judged)')
        return
    for p, at, ag, r in zip(pos, ats, ags, rs):
        fs = file_settings(data, data.channels[p], list(data.channels[:p]).count(data.channels[p])) if pre.sample else None
        if at is None:
            at = fs[0] if fs else None
        if at is None:
            mon.chk(False, 'rfi:law', why='no amplification type yet call returned', channel=p)
            continue
        x = pre.f64[:, p]
        if at[0] == 0:
            if ag is None:
                ag = fs[2] if fs else None
            if ag is None:
                ag = 1.0
            exp = x / ag
            law = ('lin', float(ag))
        else:
            if r is None:
                r = fs[1] if fs else None
            exp = at[1] * 10 ** (at[0] * x / float(r))
            law = ('log', float(at[0]), float(at[1]), float(r))
        got = outa[:, p]
        with np.errstate(all='ignore'):
            ok = np.allclose(got, exp, rtol=1e-12, atol=0, equal_nan=True) if len(x) else True
        mon.chk(ok, 'rfi:law', channel=int(p), law=law,
                worst=None if ok else float(np.nanmax(np.abs(got - exp) / np.maximum(np.abs(exp), 1e-300))),
                x0=float(x[0]) if len(x) else None, got0=float(got[0]) if len(x) else None,
                want0=float(exp[0]) if len(x) else None)
        if pre.sample and is_sample(out):
            r0 = pre.meta['range'][p]
            r1 = out.range(p)
            if r0 is not None:
                f = (lambda v: v / ag) if at[0] == 0 else (lambda v: at[1] * 10 ** (at[0] * v / float(r)))
                with np.errstate(all='ignore'):
                    want_r = [float(f(np.float64(r0[0]))), float(f(np.float64(r0[1])))]
                    ok = r1 is not None and np.allclose([float(r1[0]), float(r1[1])], want_r, rtol=1e-12, equal_nan=True)
                mon.chk(ok, 'rfi:range-law', channel=int(p), got=r1, want=want_r)
    others = [j for j in range(pre.shape[1]) if j not in pos]
    if others:
        ok = outa[:, others].tobytes() == pre.f64[:, others].tobytes()
        mon.chk(ok, 'rfi:untouched-columns', others=others)
    meta_equal_except_range(mon, pre, out, 'rfi')
    limits_follow_events(mon, pre, out, pos, 'rfi')
    input_unchanged(mon, pre, data, 'rfi')


def oracle_to_mef(mon, pre, data, channels, sc_list, sc_channels, out):
    if data.ndim != 2:
        mon.ctx.note('to_mef on non-2D input (not judged)')
        return
    D = data.shape[1]
    scp, _ = norm_channels(data, sc_channels, default=list(range(D)))
    req, _ = norm_channels(data, channels, default=scp)
    # the call returned: so the request must have been satisfiable
    ok = len(scp) == len(sc_list)
    mon.chk(ok, 'mef:length-mismatch-accepted', n_curves=len(sc_list), n_channels=len(scp))
    unc = [p for p in req if p not in scp]
    mon.chk(not unc, 'mef:uncovered-request-passed-through', uncovered=unc, requested=req, covered=scp)
    if not ok or len(set(scp)) != len(scp):
        return
    curve = dict(zip(scp, sc_list))
    outa = np.asarray(out)
    mon.chk(outa.shape == pre.shape and outa.dtype == np.float64, 'mef:shape-dtype',
            shape=list(outa.shape), dtype=str(outa.dtype))
    conv = sorted(set(p for p in req if p in curve))
    for p in conv:
        exp = np.asarray(curve[p](pre.f64[:, p]))
        got = outa[:, p]
        ok = got.tobytes() == np.asarray(exp, dtype=np.float64).tobytes()
        if not ok and np.allclose(got, exp, rtol=1e-13, atol=0, equal_nan=True):
            mon.ctx.counters['mef_value_ulp_noise'] += 1   # evaluation noise only: reported, not a verdict
            ok = True
        mon.chk(ok, 'mef:own-curve', channel=int(p), requested=req, covered=scp,
                got0=float(got[0]) if len(got) else None, want0=float(exp[0]) if len(got) else None)
    others = [j for j in range(D) if j not in conv]
    if others:
        mon.chk(outa[:, others].tobytes() == pre.f64[:, others].tobytes(), 'mef:untouched-columns', others=others,
                requested=req, covered=scp)
    meta_equal_except_range(mon, pre, out, 'mef')
    limits_follow_events(mon, pre, out, conv, 'mef')
    input_unchanged(mon, pre, data, 'mef')


def oracle_transform(mon, pre, data, channels, fxn, def_channels, out):
    if data.ndim != 2:
        return
    D = data.shape[1]
    pos, _ = norm_channels(data, channels, default=def_channels if def_channels is not None else list(range(D)))
    outa = np.asarray(out)
    if len(set(pos)) != len(pos):
        return
    others = [j for j in range(D) if j not in pos]
    if others:
        mon.chk(outa[:, others].tobytes() == pre.f64[:, others].tobytes(), 'transform:untouched-columns', others=others)
    meta_equal_except_range(mon, pre, out, 'transform')
    limits_follow_events(mon, pre, out, pos, 'transform')
    input_unchanged(mon, pre, data, 'transform')


# ------------------------------------------------------------------------------
# C08 / C05: gates
# ------------------------------------------------------------------------------

def _attach_gates(self):
    G = self.F.gate
    self.rebind(G, 'start_end', lambda orig: _wrap_gate(self, orig, oracle_start_end))
    self.rebind(G, 'high_low', lambda orig: _wrap_gate(self, orig, oracle_high_low))
    self.rebind(G, 'ellipse', lambda orig: _wrap_gate(self, orig, oracle_ellipse))
    self.rebind(G, 'density2d', lambda orig: _wrap_gate(self, orig, oracle_density2d))


Monitors.attach_gates = _attach_gates


def _wrap_gate(mon, orig, oracle):
    import inspect
    sig = inspect.signature(orig)

    def gate(*a, **k):
        try:
            ba = sig.bind(*a, **k)
            ba.apply_defaults()
            args = dict(ba.arguments)
            pre = snapshot(args['data']) if isinstance(args.get('data'), np.ndarray) else None
            from rv.fingerprint import fp
            fch = fp(args.get('channels'))
            asked = list(args['channels']) if isinstance(args.get('channels'), list) else args.get('channels')
        except Exception:   # noqa  (bad call: let the real function produce its own error)
            pre = None
        out = mon.call(orig.__name__, orig, *a, **k)
        if pre is not None:
            try:
                if 'channels' in args:
                    mon.chk(fp(args['channels']) == fch, orig.__name__ + ':caller-argument-mutated', asked=core.jsonable(asked),
                            now=core.jsonable(args['channels']))
                    args['channels'] = asked
                oracle(mon, pre, args, out)
            except Exception as e:   # noqa
                mon.ctx.note('oracle-error %s: %s' % (orig.__name__, core.exc_str(e)))
                mon.ctx.counters['oracle_errors'] += 1
        return out
    return gate


def gated_equals_masked(mon, pre, data, gated, mask, mech):
    """gated output == input restricted to mask (values, order, metadata)."""
    exp = pre.raw[mask]
    g = np.asarray(gated)
    ok = g.shape == exp.shape and g.dtype == exp.dtype and g.tobytes() == exp.tobytes()
    mon.chk(ok, mech + ':gated-not-data[mask]', got_shape=list(g.shape), want_shape=list(exp.shape))
    if pre.sample:
        ok = is_sample(gated)
        if ok:
            m = zoo.meta(gated)
            bad = [k for k in m if not _eq(m[k], pre.meta[k])]
            ok = not bad
        mon.chk(ok, mech + ':gated-metadata-changed')
    else:
        mon.chk(type(gated) is type(data), mech + ':gated-type-changed', got=type(gated).__name__)
    input_unchanged(mon, pre, data, mech)


def split_out(out, full):
    if full:
        return out.gated_data, np.asarray(out.mask)
    return out, None


def oracle_start_end(mon, pre, args, out):
    data = args['data']
    N = pre.shape[0]
    ns, ne = max(args['num_start'], 0), max(args['num_end'], 0)
    gated, mask = split_out(out, args['full_output'])
    mon.chk(ns + ne <= N, 'start_end:unsatisfiable-accepted', N=N, num_start=args['num_start'], num_end=args['num_end'])
    i = np.arange(N)
    exp = (i >= ns) & (i < N - ne)
    if mask is not None:
        mon.chk(mask.dtype == bool and np.array_equal(mask, exp), 'start_end:mask', N=N,
                num_start=args['num_start'], num_end=args['num_end'], kept=int(mask.sum()), want=int(exp.sum()))
    gated_equals_masked(mon, pre, data, gated, exp, 'start_end')


def oracle_high_low(mon, pre, args, out):
    data = args['data']
    if data.ndim != 2:
        mon.ctx.note('high_low on non-2D input (not judged)')
        return
    D = pre.shape[1]
    ch = args['channels']
    if ch is None:
        pos = list(range(D))
    else:
        pos, _ = norm_channels(data, ch)
    X = pre.raw[:, pos]

    def thr(v, side):
        if v is None:
            if pre.sample:
                return np.array([(-np.inf if side == 0 else np.inf) if pre.meta['range'][p] is None
                                 else pre.meta['range'][p][side] for p in pos], dtype=float)
            return np.full(len(pos), -np.inf if side == 0 else np.inf)
        return np.broadcast_to(np.asarray(v, dtype=float), (len(pos),))
    lo, hi = thr(args['low'], 0), thr(args['high'], 1)
    exp = np.ones(pre.shape[0], dtype=bool)
    for j in range(len(pos)):
        col = X[:, j]
        exp &= (col > lo[j]) & (col < hi[j])
    gated, mask = split_out(out, args['full_output'])
    if mask is not None:
        mon.chk(mask.dtype == bool and np.array_equal(mask, exp), 'high_low:mask', channels=repr(ch),
                low=repr(args['low']), high=repr(args['high']), n_diff=int(np.sum(mask != exp)) if mask.shape == exp.shape else -1)
    gated_equals_masked(mon, pre, data, gated, exp, 'high_low')


def ellipse_q(X, center, a, b, theta, log):
    """quadratic form in extended precision; nan where no log image."""
    L = np.longdouble
    X = X.astype(L)
    if log:
        with np.errstate(all='ignore'):
            X = np.where(X > 0, np.log10(np.where(X > 0, X, 1)), np.nan)
    dx = X[:, 0] - L(center[0])
    dy = X[:, 1] - L(center[1])
    c, s = np.cos(L(theta)), np.sin(L(theta))
    xr = c * dx + s * dy
    yr = -s * dx + c * dy
    return (xr / L(a)) ** 2 + (yr / L(b)) ** 2


def oracle_ellipse(mon, pre, args, out):
    data = args['data']
    pos, _ = norm_channels(data, args['channels'])
    X = pre.f64[:, pos]
    q = ellipse_q(X, args['center'], args['a'], args['b'], args['theta'], args['log'])
    eps = 1e-9
    inside = q < 1 - eps
    outside = ~(q <= 1 + eps)        # includes nan (no log image)
    band = ~(inside | outside)
    if args['theta'] == 0 and not args['log']:
        # the four axis vertices are exactly on the ellipse with no rounding anywhere (all operations exact):
        # "inside or on" => they must be kept
        dx = X[:, 0] - float(args['center'][0])
        dy = X[:, 1] - float(args['center'][1])
        exact_in = (X[:, 0] - dx == float(args['center'][0])) & (X[:, 1] - dy == float(args['center'][1]))
        vertex = exact_in & (((dy == 0) & (np.abs(dx) == args['a'])) | ((dx == 0) & (np.abs(dy) == args['b'])))
        inside = inside | vertex
        band = band & ~vertex
        mon.ctx.counters['ellipse_exact_vertex_events'] += int(vertex.sum())
    mon.ctx.counters['ellipse_boundary_events'] += int(band.sum())
    gated, mask = split_out(out, args['full_output'])
    if mask is not None:
        bad = (mask & outside) | (~mask & inside)
        mon.chk(mask.dtype == bool and mask.shape == inside.shape and not bad.any(), 'ellipse:mask',
                n_bad=int(bad.sum()), q_bad=[float(x) for x in q[bad][:3]] if bad.any() else None,
                center=repr(args['center']), a=args['a'], b=args['b'], theta=args['theta'], log=args['log'])
        gated_equals_masked(mon, pre, data, gated, mask, 'ellipse')
        # contour traces the same ellipse
        cn = out.contour
        ok = isinstance(cn, list) and len(cn) == 1
        if ok:
            C = np.asarray(cn[0], dtype=float)
            qc = ellipse_q(C, args['center'], args['a'], args['b'], args['theta'], args['log'])
            # (contour coordinates are doubles: a point cannot lie closer to the ellipse than one ulp of its own magnitude,
            # which in units of the semi-axes is ulp(|coordinate|) / min(a, b))
            with np.errstate(all='ignore'):
                mag = float(np.max(np.abs(np.log10(C) if args['log'] else C))) if C.size else 0.0
            tolc = 1e-8 + 32 * np.finfo(float).eps * mag / max(min(abs(args['a']), abs(args['b'])), 1e-300)
            ok = bool(np.all(np.abs(qc - 1) < tolc))
            # full turn: angles of the contour points in the ellipse frame sweep 2*pi
            L = np.longdouble
            Cx = np.log10(C) if args['log'] else C
            dx, dy = Cx[:, 0] - args['center'][0], Cx[:, 1] - args['center'][1]
            c, s = math.cos(args['theta']), math.sin(args['theta'])
            ang = np.unwrap(np.arctan2((-s * dx + c * dy) / args['b'], (c * dx + s * dy) / args['a']))
            sweep = abs(ang[-1] - ang[0])
            ok = ok and abs(sweep - 2 * np.pi) < 1e-6 and np.all(np.diff(ang) > 0) | np.all(np.diff(ang) < 0)
        mon.chk(bool(ok), 'ellipse:contour', theta=args['theta'], log=args['log'])
    elif not band.any():
        gated_equals_masked(mon, pre, data, gated, inside, 'ellipse')


def bin_index(v, edges):
    idx = np.searchsorted(edges, v, side='right') - 1
    idx = np.where(v == edges[-1], len(edges) - 2, idx)
    ing = (v >= edges[0]) & (v <= edges[-1])
    return idx, ing


def oracle_density2d(mon, pre, args, out):
    import fractions
    import scipy.ndimage
    data = args['data']
    if not args['full_output']:
        mon.ctx.counters['density2d_short_form_calls'] += 1
        return
    pos, _ = norm_channels(data, args['channels'])
    X = pre.f64[:, pos]
    if not np.all(np.isfinite(X)):
        mon.ctx.note('density2d on non-finite data (not judged)')
        return
    mask = np.asarray(out.mask)
    xe, ye = [np.asarray(e, dtype=float) for e in out.bin_edges]
    bm = np.asarray(out.bin_mask)
    ctxd = dict(channels=repr(args['channels']), f=args['gate_fraction'], sigma=args['sigma'], N=int(pre.shape[0]),
                nbins=[len(xe) - 1, len(ye) - 1])
    ok = bm.shape == (len(xe) - 1, len(ye) - 1) and bm.dtype == bool and mask.shape == (pre.shape[0],) \
        and np.all(np.diff(xe) > 0) and np.all(np.diff(ye) > 0)
    if not mon.chk(bool(ok), 'density2d:output-shapes', **ctxd):
        return
    ix, inx = bin_index(X[:, 0], xe)
    iy, iny = bin_index(X[:, 1], ye)
    ing = inx & iny
    ixc, iyc = np.clip(ix, 0, len(xe) - 2), np.clip(iy, 0, len(ye) - 2)
    # 1+2 atomicity, nothing outside the grid
    exp = ing & bm[ixc, iyc]
    mon.chk(np.array_equal(mask, exp), 'density2d:atomicity', n_diff=int(np.sum(mask != exp)),
            kept_outside_grid=int(np.sum(mask & ~ing)), **ctxd)
    gated_equals_masked(mon, pre, data, out.gated_data, mask, 'density2d')
    if args['bin_mask'] is not None:
        mon.chk(np.array_equal(bm, np.asarray(args['bin_mask'])), 'density2d:replay-bin-mask-changed', **ctxd)
        return
    H = np.zeros((len(xe) - 1, len(ye) - 1))
    np.add.at(H, (ix[ing], iy[ing]), 1)
    n_in = int(ing.sum())
    kept = int(mask.sum())
    f = args['gate_fraction']
    t_exact = math.ceil(fractions.Fraction(f) * n_in)
    t_float = int(math.ceil(f * float(n_in)))
    targets = sorted(set([t_exact, t_float]))
    if f == 0:
        mon.chk(kept == 0, 'density2d:fraction0-keeps', kept=kept, **ctxd)
        return
    if f == 1:
        mon.chk(kept == n_in, 'density2d:fraction1-drops', kept=kept, n_in=n_in, **ctxd)
    if n_in == 0:
        return
    mon.chk(kept >= min(targets), 'density2d:too-few-kept', kept=kept, targets=targets, n_in=n_in, **ctxd)
    S = scipy.ndimage.gaussian_filter(H, sigma=args['sigma'], order=0, mode='constant', cval=0.0, truncate=6.0)
    Dn = S / S.sum()
    if bm.any():
        dmin = Dn[bm].min()
        cand = bm & (Dn == dmin)
        hc = H[cand]
        ok = any(kept >= t and np.any(kept - hc < t) for t in targets)
        mon.chk(bool(ok), 'density2d:not-minimal', kept=kept, targets=targets, least_dense_kept_counts=hc[:4].tolist(), **ctxd)
        if (~bm).any():
            mon.chk(bool(dmin >= Dn[~bm].max()), 'density2d:density-order', min_kept=float(dmin),
                    max_dropped=float(Dn[~bm].max()), **ctxd)
    else:
        mon.chk(min(targets) == 0, 'density2d:too-few-kept', kept=0, targets=targets, **ctxd)


# ------------------------------------------------------------------------------
# C12: summary statistics
# ------------------------------------------------------------------------------

STATS = ('mean', 'gmean', 'median', 'mode', 'std', 'cv', 'gstd', 'gcv', 'iqr', 'rcv')


def _attach_stats(self):
    S = self.F.stats
    for name in STATS:
        self.rebind(S, name, (lambda nm: (lambda orig: _wrap_stat(self, orig, nm)))(name))


Monitors.attach_stats = _attach_stats


def _wrap_stat(mon, orig, name):
    def stat(data, channels=None):
        from rv.fingerprint import fp
        pre = snapshot(data) if isinstance(data, np.ndarray) else None
        fa = fp(channels)
        asked = list(channels) if isinstance(channels, list) else channels
        out = mon.call('stat', orig, data, channels)
        if pre is not None:
            try:
                # the request object stays the caller's: rewritten in place (e.g. negative positions resolved against THIS
                # container's width) it asks for other channels of the next container it is used with
                mon.chk(fp(channels) == fa, 'stat:caller-argument-mutated', stat=name, asked=core.jsonable(asked),
                        now=core.jsonable(channels))
                channels = asked
                oracle_stat(mon, name, pre, data, channels, out)
            except Exception as e:   # noqa
                mon.ctx.note('oracle-error stats.%s: %s' % (name, core.exc_str(e)))
                mon.ctx.counters['oracle_errors'] += 1
        return out
    return stat


def _percentile(xs, q):
    """linear-interpolation percentile of a sorted python list."""
    n = len(xs)
    h = (n - 1) * q / 100.0
    lo = int(math.floor(h))
    hi = min(lo + 1, n - 1)
    return xs[lo] + (xs[hi] - xs[lo]) * (h - lo)


def ref_stat(name, col):
    """textbook definition on a python list of floats; returns float, or a set of floats for the mode."""
    n = len(col)
    if name == 'mean':
        return math.fsum(col) / n
    if name == 'median':
        xs = sorted(col)
        return xs[n // 2] if n % 2 else 0.5 * (xs[n // 2 - 1] + xs[n // 2])
    if name == 'mode':
        cnt = {}
        for v in col:
            cnt[v] = cnt.get(v, 0) + 1
        mx = max(cnt.values())
        return set(v for v, c in cnt.items() if c == mx)
    if name == 'std':
        m = math.fsum(col) / n
        return math.sqrt(math.fsum((v - m) ** 2 for v in col) / n)
    if name == 'cv':
        return ref_stat('std', col) / ref_stat('mean', col)
    if name == 'iqr':
        xs = sorted(col)
        return _percentile(xs, 75) - _percentile(xs, 25)
    if name == 'rcv':
        return ref_stat('iqr', col) / ref_stat('median', col)
    lg = [math.log(v) for v in col]
    if name == 'gmean':
        return math.exp(math.fsum(lg) / n)
    sd = ref_stat('std', lg)
    if name == 'gstd':
        return math.exp(sd)
    if name == 'gcv':
        return math.sqrt(math.exp(sd ** 2) - 1)
    raise KeyError(name)


def stat_tol(dtype):
    return 2e-5 if (dtype.kind == 'f' and dtype.itemsize == 4) else 1e-6


def oracle_stat(mon, name, pre, data, channels, out):
    if pre.raw.size == 0:
        mon.ctx.note('statistic of empty data (not judged)')
        return
    A = pre.f64
    if data.ndim == 1:
        if channels is not None:
            mon.ctx.note('stats on 1-D data with channels (not judged)')
            return
        cols, scalar = [A], True
    elif data.ndim == 2:
        if channels is None:
            pos, scalar = list(range(A.shape[1])), False
        else:
            pos, scalar = norm_channels(data, channels)
        cols = [A[:, p] for p in pos]
    else:
        return
    o = np.asarray(out)
    want_shape = () if scalar else (len(cols),)
    if not mon.chk(o.shape == want_shape, 'stats:result-shape:' + name, stat=name, got=list(o.shape), want=list(want_shape),
                   channels=repr(channels), ndim=int(data.ndim)):
        return
    vals = [float(o)] if scalar else [float(v) for v in o]
    tol = stat_tol(pre.dtype)
    for col, got in zip(cols, vals):
        lst = col.tolist()
        if any(v != v for v in lst):
            # a NaN among the values: no definition gives a number (the mode, a counting statistic, is left out)
            if name != 'mode':
                mon.chk(got != got, 'stats:definition:' + name, stat=name, got=got, want='nan (a value is NaN)', dtype=str(pre.dtype))
            continue
        if not all(math.isfinite(v) for v in lst):
            mon.ctx.note('statistic of data with infinite values (not judged)')
            continue
        if name in ('gmean', 'gstd', 'gcv') and min(lst) < 0:
            # the logarithm of a negative value is undefined: a geometric statistic of such a column is not a number
            mon.chk(got != got, 'stats:definition:' + name, stat=name, got=got, want='nan (a value is negative)', dtype=str(pre.dtype))
            continue
        if name in ('gmean', 'gstd', 'gcv') and min(lst) <= 0:
            mon.ctx.note('geometric statistic of data with zeros (not judged)')
            continue
        scale = max(abs(v) for v in lst)
        try:
            exp = ref_stat(name, lst)
        except ZeroDivisionError:
            mon.ctx.note('statistic with zero denominator (not judged)')
            continue
        if name == 'mode':
            mon.chk(got in exp, 'stats:definition:' + name, stat=name, got=got, want=sorted(exp)[:5], dtype=str(pre.dtype))
            continue
        if name in ('cv', 'rcv'):
            den = ref_stat('mean' if name == 'cv' else 'median', lst)
            if abs(den) < 1e-3 * scale:
                mon.ctx.note('ratio statistic with near-zero denominator (not judged)')
                continue
        atol = tol * scale if name in ('mean', 'median', 'std', 'iqr') else tol * 1e-3
        ok = abs(got - exp) <= tol * abs(exp) + atol
        mon.chk(ok, 'stats:definition:' + name, stat=name, got=got, want=exp, rel=abs(got - exp) / max(abs(exp), 1e-300),
                dtype=str(pre.dtype), n=len(lst), container='sample' if pre.sample else 'array')
    input_unchanged(mon, pre, data, 'stats')


# ------------------------------------------------------------------------------
# C09: bead model fit (structural identities hold for every fit whatsoever)
# ------------------------------------------------------------------------------

def _attach_fit(self):
    M = self.F.mef
    orig = M.fit_beads_autofluorescence
    self.rebind(M, 'fit_beads_autofluorescence', lambda o: _wrap_fit(self, o))
    new = M.fit_beads_autofluorescence
    # get_transform_fxn captured the function as a default argument: re-point it as well
    g = getattr(M.get_transform_fxn, '__rv_orig__', M.get_transform_fxn)
    if g.__defaults__ and any(d is orig for d in g.__defaults__):
        old = g.__defaults__
        g.__defaults__ = tuple(new if d is orig else d for d in old)
        self.orig.append((g, '__defaults__', old))


Monitors.attach_fit = _attach_fit


def _wrap_fit(mon, orig):
    def fit_beads_autofluorescence(fl_rfi, fl_mef):
        a0, b0 = np.array(fl_rfi, dtype=float, copy=True), np.array(fl_mef, dtype=float, copy=True)
        out = mon.call('fit', orig, fl_rfi, fl_mef)
        try:
            # history: what an earlier fit returned (parameters, standard curve, bead model) still is what it was
            probe = np.array([0.5, 3.0, 40.0, 700.0, 9000.0, 2.0e5])
            prev = getattr(mon, 'prev_fit', None)
            with np.errstate(all='ignore'):
                if prev is not None:
                    pout, ppar, py, pm = prev
                    same = np.array_equal(np.asarray(pout[2], dtype=float), ppar, equal_nan=True) \
                        and np.array_equal(np.asarray(pout[0](probe), dtype=float), py, equal_nan=True) \
                        and np.array_equal(np.asarray(pout[1](probe), dtype=float), pm, equal_nan=True)
                    mon.ctx.counters['chk_fit_history'] += 1
                    mon.chk(same, 'fit:earlier-fit-changed-by-later-fit', earlier_params=ppar.tolist(),
                            earlier_params_now=np.asarray(pout[2], dtype=float).tolist(), rfi=a0.tolist(), mef=b0.tolist())
                mon.prev_fit = (out, np.array(out[2], dtype=float, copy=True), np.array(out[0](probe), dtype=float, copy=True),
                                np.array(out[1](probe), dtype=float, copy=True))
        except Exception as e:   # noqa
            mon.ctx.note('oracle-error fit-history: ' + core.exc_str(e))
            mon.ctx.counters['oracle_errors'] += 1
        try:
            oracle_fit_structure(mon, a0, b0, fl_rfi, fl_mef, out)
        except Exception as e:   # noqa
            mon.ctx.note('oracle-error fit: ' + core.exc_str(e))
            mon.ctx.counters['oracle_errors'] += 1
        return out
    return fit_beads_autofluorescence


def oracle_fit_structure(mon, a0, b0, fl_rfi, fl_mef, out):
    std_crv, beads_model, params = out[0], out[1], np.asarray(out[2], dtype=float)
    d = dict(rfi=a0.tolist(), mef=b0.tolist(), params=params.tolist())
    mon.chk(len(a0) == len(b0) and len(a0) >= 3, 'fit:too-few-or-mismatched-accepted', **d)
    mon.chk(len(params) == 3, 'fit:params-count', **d)
    mon.chk(not (params[2] < 0), 'fit:negative-autofluorescence', **d)
    if not np.all(np.isfinite(params)) or params[0] <= 0 or abs(params[1]) > 700:
        # (|intercept| > 700: e^b is not representable in double precision, so e^b*x^m cannot be evaluated factor by factor)
        # a power law with non-positive exponent diverges at zero: "zero at zero" is unsatisfiable there.
        # Degenerate fits are counted; the driver judges them where the pairs are ordered by brightness.
        mon.ctx.counters['fit_degenerate'] += 1
        # a finite fit with positive slope whose e^b is merely not representable is the oracle's limit, not the fit's
        mon.last_fit_degenerate = 'unrepresentable' if (np.all(np.isfinite(params)) and params[0] > 0) else True
        if getattr(mon, 'judge_nonpositive_slope', False) and np.all(np.isfinite(params)) and params[0] <= 0:
            # "for every fit whatsoever ... zero at zero": judged literally by C09.  With a fitted slope <= 0 the
            # power law diverges at the origin (listed known finding 'fit-nonpositive-slope')
            with np.errstate(all='ignore'):
                z = np.asarray(std_crv(np.array([0.0])), dtype=float)[0]
                z2 = float(std_crv(0.0))
            mon.chk(z == 0 and z2 == 0, 'fit:std-crv-not-zero-at-zero', known_key='fit-nonpositive-slope',
                    at_zero=float(z), **d)
        return
    mon.last_fit_degenerate = False
    pos = a0[a0 > 0]
    lo, hi = (pos.min(), pos.max()) if len(pos) else (1.0, 10.0)
    x = np.geomspace(lo / 10, hi * 10, 61)
    with np.errstate(all='ignore'):
        y = np.asarray(std_crv(x), dtype=float)
        ym = np.asarray(std_crv(-x), dtype=float)
        z = std_crv(np.array([0.0]))[0]
        z2 = std_crv(0.0)
    mon.chk(z == 0 and z2 == 0, 'fit:std-crv-not-zero-at-zero', at_zero=float(z), **d)
    mon.chk(np.array_equal(ym, -y, equal_nan=True), 'fit:std-crv-not-odd', **d)
    if params[0] > 0 and np.all(np.isfinite(y)):
        mon.chk(bool(np.all(np.diff(y) > 0)), 'fit:std-crv-not-increasing', **d)
    # far below the beads (down to 1e-120 where e^b x^m is still a normal number): still positive and strictly increasing
    # (a curve assembled as (model - autofluorescence) + autofluorescence loses everything below ulp(autofluorescence))
    if params[0] > 0:
        x2 = np.geomspace(1e-120, lo / 10, 40)
        repres = params[0] * np.log(x2) + params[1] > -600
        with np.errstate(all='ignore'):
            y2 = np.asarray(std_crv(x2), dtype=float)
        if np.count_nonzero(repres) >= 2:
            mon.chk(bool(np.all(y2[repres] > 0)) and bool(np.all(np.diff(y2[repres]) > 0)), 'fit:std-crv-not-increasing',
                    where='far below the beads', first=[float(v) for v in y2[repres][:4]], **d)
    with np.errstate(all='ignore'):
        bm = np.asarray(beads_model(x), dtype=float)
    fin = np.isfinite(bm) & np.isfinite(y)
    # exp(m*log(x)+b) and e^b*x^m differ by ~|m*log(x)+b|*eps relatively (up to ~1e-13 for huge exponents)
    tolv = 1e-9 * np.abs(y) + 1e-12 * params[2]
    mon.chk(bool(np.all(np.abs(bm[fin] - (y[fin] - params[2])) <= tolv[fin] + 1e-300)), 'fit:beads-model-identity', **d)
    ok = np.array_equal(np.asarray(fl_rfi, dtype=float), a0, equal_nan=True) and \
        np.array_equal(np.asarray(fl_mef, dtype=float), b0, equal_nan=True)
    mon.chk(ok, 'fit:input-mutated', **d)
    # ... and whatever the length of the array it sits in (in-place / chunked fast paths for long arrays): one long array of
    # both signs against the same values evaluated a thousand at a time
    mon._fit_count = getattr(mon, '_fit_count', 0) + 1
    if getattr(mon, 'judge_nonpositive_slope', False) and mon._fit_count % 25 == 1:
        xb = np.concatenate([-np.geomspace(hi * 10, lo / 10, 150001), [0.0], np.geomspace(lo / 10, hi * 10, 150001)])
        with np.errstate(all='ignore'):
            for nm, f in (('std_crv', std_crv), ('beads_model', beads_model)):
                xx = xb if nm == 'std_crv' else xb[xb > 0]
                whole = np.asarray(f(xx), dtype=float)
                parts = np.concatenate([np.asarray(f(xx[i:i + 1000]), dtype=float) for i in range(0, len(xx), 1000)])
                mon.chk(whole.shape == parts.shape and bool(np.array_equal(whole, parts, equal_nan=True)),
                        'fit:curve-depends-on-array-length', curve=nm, n=int(len(xx)), **d)
    # the curves are functions of the VALUE handed to them, whatever numeric form it comes in (integer arrays of
    # any width, lists, Python / NumPy scalars): same answers as for the float64 array of the same values
    xi = np.unique(np.round(np.geomspace(max(lo / 10, 1), max(hi * 10, 2), 23)))
    xi = xi[xi < 2 ** 31 - 1]
    if len(xi):
        with np.errstate(all='ignore'):
            for nm, f in (('std_crv', std_crv), ('beads_model', beads_model)):
                want = np.asarray(f(xi.astype(np.float64)), dtype=float)
                forms = [('int64', xi.astype(np.int64)), ('int32', xi.astype(np.int32)), ('list-int', [int(v) for v in xi]),
                         ('list-float', [float(v) for v in xi]), ('tuple-int', tuple(int(v) for v in xi))]
                if xi.max() < 65536:
                    forms += [('uint16', xi.astype(np.uint16)), ('>u2', xi.astype('>u2'))]
                if xi.max() < 32768:
                    forms.append(('int16', xi.astype(np.int16)))
                if nm == 'std_crv':
                    forms.append(('neg-int64', -xi.astype(np.int64)))
                for fname, v in forms:
                    try:
                        got = np.asarray(f(v), dtype=float)
                    except Exception as e:   # noqa  (a refused form is observed, not judged)
                        mon.ctx.note('curve-form-refused:%s:%s' % (nm, fname))
                        continue
                    w = -want if fname == 'neg-int64' else want
                    fin2 = np.isfinite(w)
                    # NumPy evaluates log/power of 16-bit integers in single precision by its own promotion rules:
                    # those forms are held to single-precision agreement, every other form to double precision
                    # (the error of exp(m*log x + b) grows with the size of the exponent: a degenerate fit of a
                    # mis-clustered sample can have |m*log x| in the hundreds)
                    E = abs(params[0]) * float(np.max(np.abs(np.log(xi)))) + abs(params[1]) + 1.0
                    rt = max(2e-5, 8 * 1.2e-7 * E) if fname in ('uint16', '>u2', 'int16') else max(1e-12, 8 * 2.3e-16 * E)
                    mon.chk(got.shape == w.shape and bool(np.all(np.abs(got[fin2] - w[fin2]) <= rt * (np.abs(w[fin2]) + params[2]) + 1e-300)),
                            'fit:curve-depends-on-input-form', curve=nm, form=fname, **d)
                i = len(xi) // 2
                for fname, v in (('py-int', int(xi[i])), ('np-int64', np.int64(xi[i])), ('py-float', float(xi[i])),
                                 ('np-float64', np.float64(xi[i]))):
                    try:
                        got = float(f(v))
                    except Exception as e:   # noqa
                        mon.ctx.note('curve-form-refused:%s:%s' % (nm, fname))
                        continue
                    if np.isfinite(want[i]):
                        mon.chk(abs(got - want[i]) <= 1e-12 * (abs(want[i]) + params[2]) + 1e-300, 'fit:curve-depends-on-input-form',
                                curve=nm, form=fname, **d)


# ------------------------------------------------------------------------------
# C19: histogram bin edges
# ------------------------------------------------------------------------------

def _attach_hist_bins(self):
    cls = self.F.io.FCSData
    self.rebind(cls, 'hist_bins', lambda orig: _wrap_hist_bins(self, orig))


Monitors.attach_hist_bins = _attach_hist_bins


def _wrap_hist_bins(mon, orig):
    def hist_bins(self, channels=None, nbins=None, scale='logicle', **kwargs):
        try:
            pre_range = [None if r is None else [float(r[0]), float(r[1])] for r in self.range()]
            pre_vals = np.array(np.asarray(self), dtype=float)
        except Exception:   # noqa
            pre_range = None
        from rv.fingerprint import fp
        fa = [fp(channels), fp(nbins), fp(scale)]
        asked = [list(x) if isinstance(x, list) else x for x in (channels, nbins, scale)]
        out = mon.call('hist_bins', orig, self, channels, nbins, scale, **kwargs)
        if pre_range is not None:
            try:
                mon.chk([fp(channels), fp(nbins), fp(scale)] == fa, 'hist_bins:caller-argument-mutated',
                        asked=core.jsonable(asked), now=core.jsonable([channels, nbins, scale]))
                channels, nbins, scale = asked
                oracle_hist_bins(mon, self, pre_range, pre_vals, channels, nbins, scale, kwargs, out)
            except Exception as e:   # noqa
                mon.ctx.note('oracle-error hist_bins: ' + core.exc_str(e))
                mon.ctx.counters['oracle_errors'] += 1
        return out
    return hist_bins


def oracle_hist_bins(mon, s, pre_range, vals, channels, nbins, scale, kwargs, out):
    from rv.refmodels import logicle as ref
    D = len(s.channels)
    if channels is None:
        pos, is_list = list(range(D)), True
    else:
        pos, scalar = norm_channels(s if s.ndim == 2 else s.reshape(1, -1), channels)
        is_list = isinstance(channels, list)
        if not is_list and not scalar:
            mon.ctx.note('hist_bins with non-list iterable channels (not judged)')
            return
    k = len(pos)
    outs = out if is_list else [out]
    if not mon.chk(isinstance(outs, list) and len(outs) == k, 'hist_bins:result-count', got=len(outs) if isinstance(outs, list) else -1, want=k):
        return
    nb = nbins if isinstance(nbins, list) else [nbins] * k
    sc = scale if isinstance(scale, list) else [scale] * k
    res = s.resolution()
    tr = getattr(mon, 'hist_true_res', None)
    if tr is not None and len(tr) == len(res) and list(s.channels) == list(getattr(mon, 'hist_true_names', [])) \
            and len(set(s.channels)) == len(s.channels):
        res = tuple(tr)                      # the driver knows the $PnR it wrote (full-width samples only)
    at = s.amplification_type()
    for j, p in enumerate(pos):
        e = np.asarray(outs[j], dtype=float)
        n = res[p] if nb[j] is None else nb[j]
        lo, hi = pre_range[p]
        d = dict(channel=int(p), scale=sc[j], nbins=nb[j], resolution=int(res[p]), range=[lo, hi])
        ok = e.ndim == 1 and len(e) == n + 1 and bool(np.all(np.isfinite(e))) and bool(np.all(np.diff(e) > 0))
        if not mon.chk(ok, 'hist_bins:edges-count-finite-increasing', n_edges=int(e.size), **d):
            continue
        if sc[j] == 'linear':
            mon.chk(e[0] <= lo and e[-1] >= hi, 'hist_bins:range-not-covered', first=float(e[0]), last=float(e[-1]), **d)
            if nb[j] is None and lo == 0 and hi == res[p] - 1:
                kk = np.arange(res[p], dtype=float)
                c = 0.5 * (e[:-1] + e[1:])
                mon.chk(bool(np.all(np.abs(c - kk) <= 1e-9 * res[p])), 'hist_bins:value-not-bin-centre', **d)
                mon.chk(bool(np.array_equal(np.digitize(kk, e) - 1, kk.astype(int))), 'hist_bins:value-in-wrong-bin', **d)
                mon.ctx.counters['chk_hist_centre_linear'] += 1
        elif sc[j] == 'log':
            mon.chk(e[0] > 0, 'hist_bins:log-edges-not-positive', first=float(e[0]), **d)
            mon.chk(e[-1] >= hi * (1 - 1e-12) and (lo <= 0 or e[0] <= lo * (1 + 1e-12)), 'hist_bins:range-not-covered',
                    first=float(e[0]), last=float(e[-1]), **d)
            a = at[p]
            if nb[j] is None and a is not None and a[0] != 0 and lo > 0:
                R = res[p]
                want_lo, want_hi = a[1], a[1] * 10 ** (a[0] * (R - 1) / float(R))
                if abs(lo - want_lo) <= 1e-9 * want_lo and abs(hi - want_hi) <= 1e-9 * want_hi:
                    kk = np.arange(R, dtype=float)
                    v = a[1] * 10 ** (a[0] * kk / float(R))
                    c = np.sqrt(e[:-1] * e[1:])
                    mon.chk(bool(np.all(np.abs(c / v - 1) <= 1e-9)), 'hist_bins:value-not-bin-centre', **d)
                    mon.chk(bool(np.array_equal(np.digitize(v, e) - 1, kk.astype(int))), 'hist_bins:value-in-wrong-bin', **d)
                    mon.ctx.counters['chk_hist_centre_log'] += 1
        elif sc[j] == 'logicle':
            y = vals[:, p] if vals.ndim == 2 else vals
            T, M, W = ref.derive([y], p, [hi])
            T, M, W = kwargs.get('T', T), kwargs.get('M', None), kwargs.get('W', None)
            if M is None:
                M = max(4.5, 4.5 * math.log10(T) / math.log10(262144))
            if W is None:
                W = 0
                if np.any(y < 0):
                    W = max(0, (M - math.log10(T / abs(float(np.min(y))))) / 2)
            delta = float(M) / (res[p] - 1)
            grid = np.linspace(-delta / 2., M + delta / 2., n + 1)
            want = np.asarray(ref.forward(grid, T, M, W), dtype=float)
            pp = ref.solve_p(W)
            scl = float(T) * 10 ** (-(M - W)) * (1 + pp * pp)
            f32 = s.dtype.kind == 'f' and s.dtype.itemsize == 4
            rt = 2e-5 if f32 else 1e-9
            mon.chk(bool(np.all(np.abs(e - want) <= rt * np.abs(want) + rt * scl)), 'hist_bins:logicle-not-uniform-display-grid',
                    T=float(T), M=float(M), W=float(W), worst=float(np.max(np.abs(e - want) / (np.abs(want) + scl))), **d)
            mon.chk(e[0] <= min(lo, 0) + 1e-9 * scl and e[-1] >= hi * (1 - 1e-12) if 'T' not in kwargs and 'M' not in kwargs else True,
                    'hist_bins:range-not-covered', first=float(e[0]), last=float(e[-1]), **d)


# ------------------------------------------------------------------------------
# C04 (shape C): alignment invariant on every sample any indexing produces
# ------------------------------------------------------------------------------

def _attach_alignment(self):
    cls = self.F.io.FCSData
    self.rebind(cls, '__getitem__', lambda orig: _wrap_getitem(self, orig))
    self.keys_seen = {}


Monitors.attach_alignment = _attach_alignment


def key_shape(key):
    def one(k):
        if isinstance(k, (bool, np.bool_)):
            return 'bool'
        if isinstance(k, (int, np.integer)):
            return 'int' if k >= 0 else '-int'
        if isinstance(k, str):
            return 'name'
        if isinstance(k, slice):
            return 'slice'
        if k is Ellipsis:
            return '...'
        if k is None:
            return 'None'
        if isinstance(k, np.ndarray):
            return 'nd-' + k.dtype.kind + str(k.ndim)
        if isinstance(k, (list, tuple)):
            inner = sorted(set(one(x) for x in k))
            return ('list' if isinstance(k, list) else 'tuple') + '[' + ','.join(inner) + ']'
        return type(k).__name__
    if isinstance(key, tuple):
        return '(' + ', '.join(one(k) for k in key) + ')'
    return one(key)


def aligned(r):
    """invariant for a 2-D sample: one record per column in each of the seven views."""
    n = r.shape[1]
    try:
        lens = [len(r.channels), len(r.range()), len(r.resolution()), len(r.amplification_type()),
                len(r.amplifier_gain()), len(r.detector_voltage()), len(r.channel_labels())]
    except Exception as e:   # noqa
        return False, 'accessor raised ' + core.exc_str(e)
    return all(l == n for l in lens), lens


def _wrap_getitem(mon, orig):
    def __getitem__(self, key):
        out = orig(self, key)
        if mon.depth == 0:
            mon.depth += 1
            try:
                ks = key_shape(key)
                mon.keys_seen[ks] = mon.keys_seen.get(ks, 0) + 1
                if is_sample(out) and out.ndim == 2 and is_sample(self) and self.ndim == 2 \
                        and hasattr(out, 'channels'):
                    ok, lens = aligned(out)
                    mon.ctx.counters['chk_alignment_invariant'] += 1
                    mon.chk(ok, 'alignment-invariant', key=ks, shape=list(out.shape), metadata_counts=lens)
            except Exception as e:   # noqa
                mon.ctx.counters['oracle_errors'] += 1
                mon.ctx.note('oracle-error getitem: ' + core.exc_str(e))
            finally:
                mon.depth -= 1
        return out
    return __getitem__


# ------------------------------------------------------------------------------
# C13: generic purity monitor (every public callable, enumerated with inspect)
# ------------------------------------------------------------------------------

PURITY_MODULES = ('io', 'transform', 'gate', 'stats', 'mef', 'plot')


def _attach_purity(self):
    import inspect
    from rv.fingerprint import fp
    self.purity_calls = {}
    self.purity_targets = []
    for mname in PURITY_MODULES:
        m = getattr(self.F, mname)
        for n, f in inspect.getmembers(m, inspect.isfunction):
            if n.startswith('_') or f.__module__ != m.__name__:
                continue
            q = '%s.%s' % (mname, n)
            self.purity_targets.append(q)
            self.rebind(m, n, (lambda qq: (lambda orig: _wrap_pure(self, orig, qq)))(q))
    cls = self.F.io.FCSData
    nd = set(dir(np.ndarray))
    for n, f in inspect.getmembers(cls, inspect.isfunction):
        if n.startswith('_') or n in nd:
            continue
        q = 'io.FCSData.%s' % n
        self.purity_targets.append(q)
        self.rebind(cls, n, (lambda qq: (lambda orig: _wrap_pure(self, orig, qq)))(q))


Monitors.attach_purity = _attach_purity


def _wrap_pure(mon, orig, q):
    from rv.fingerprint import fp, diff

    def pure(*a, **k):
        if mon.depth > 0:           # fingerprinting itself calls accessors: do not recurse
            return orig(*a, **k)
        mon.depth += 1
        try:
            before = [fp(x) for x in a] + [fp(k[key]) for key in sorted(k)]
            dflt = fp(getattr(orig, '__defaults__', None))
        finally:
            mon.depth -= 1
        try:
            return orig(*a, **k)
        finally:
            mon.depth += 1
            try:
                after = [fp(x) for x in a] + [fp(k[key]) for key in sorted(k)]
                names = ['arg%d' % i for i in range(len(a))] + sorted(k)
                mon.purity_calls[q] = mon.purity_calls.get(q, 0) + 1
                mon.ctx.counters['chk:purity'] += 1
                for nm, b, c in zip(names, before, after):
                    if b != c:
                        mon.ctx.counters['checks'] += 1
                        mon.ctx.violation('purity:%s:argument-changed' % q, mon.cid, argument=nm, first_diff=diff(b, c),
                                          workload=mon.tag, template=getattr(mon, 'template', None))
                    else:
                        mon.ctx.counters['checks'] += 1
                d2 = fp(getattr(orig, '__defaults__', None))
                if d2 != dflt:
                    mon.ctx.violation('purity:%s:default-argument-changed' % q, mon.cid, first_diff=diff(dflt, d2), workload=mon.tag)
            except Exception as e:   # noqa
                mon.ctx.counters['oracle_errors'] += 1
                mon.ctx.note('oracle-error purity %s: %s' % (q, core.exc_str(e)))
            finally:
                mon.depth -= 1
    return pure


# ------------------------------------------------------------------------------
# C14 in situ: every TEXT-like segment any load parses is re-tokenised by the reference
# ------------------------------------------------------------------------------

def _attach_textseg(self):
    self.rebind(self.F.io, 'read_fcs_text_segment', lambda orig: _wrap_textseg(self, orig))


Monitors.attach_textseg = _attach_textseg


def _wrap_textseg(mon, orig):
    import warnings
    from rv.refmodels import textseg

    def read_fcs_text_segment(buf, begin, end, delim=None, supplemental=False):
        raw = None
        try:
            pos = buf.tell()
            buf.seek(begin)
            raw = buf.read((end + 1) - begin).decode('ISO-8859-1')
            buf.seek(pos)
        except Exception:   # noqa
            raw = None
        with warnings.catch_warnings(record=True) as w:
            warnings.simplefilter('always')
            try:
                out = orig(buf, begin, end, delim, supplemental)
                exc = None
            except Exception as e:   # noqa
                out, exc = None, e
        for x in w:
            warnings.warn_explicit(x.message, x.category, x.filename, x.lineno)
        if raw is not None and not (delim is None and supplemental):
            try:
                d = delim if delim is not None else (raw[0] if raw else None)
                if d is not None or raw == '':
                    cls, want = textseg.parse(raw, d, supplemental) if raw else ('ok', {})
                    got_cls = 'error' if exc is not None else ('warn' if any('ill-formed TEXT' in str(x.message) for x in w) else 'ok')
                    got = None if exc is not None else out[0]
                    ok = (got_cls == cls) and (got == want)
                    mon.ctx.counters['chk_textseg_insitu'] += 1
                    mon.chk(ok, 'textseg-insitu:' + ('ill-formed-accepted' if cls == 'error' else 'well-formed-rejected'
                                                     if got_cls == 'error' else 're-paired-or-warning'),
                            raw=raw[:300], delim=d, supplemental=supplemental, got=[got_cls, got], want=[cls, want])
            except Exception as e:   # noqa
                mon.ctx.counters['oracle_errors'] += 1
                mon.ctx.note('oracle-error textseg: ' + core.exc_str(e))
        if exc is not None:
            raise exc
        return out
    return read_fcs_text_segment
