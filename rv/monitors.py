"""Runtime monitors attached from the harness by rebinding module / class
attributes of the imported FlowCal (no source edits).  Each wrapper snapshots the
pre-state, lets the real function run, then evaluates an independent oracle and
RECORDS the verdict in the Ctx (never raises into the monitored program), so the
same monitors run under direct drivers, the Excel pipeline and the repo's tests.
"""
import functools
import math

import numpy as np

from rv import core, zoo
from rv.fingerprint import is_sample


class Monitors(object):
    def __init__(self, ctx, FlowCal, tag='direct'):
        self.ctx = ctx
        self.F = FlowCal
        self.tag = tag
        self.cid = None
        self.orig = []
        self.depth = 0
        self.judge_limits = False   # C07 clause (bitwise limits) judged only where claimed

    # -- plumbing ---------------------------------------------------------------
    def rebind(self, owner, name, wrapper_factory):
        orig = getattr(owner, name)
        w = wrapper_factory(orig)
        try:
            functools.update_wrapper(w, orig)
        except Exception:   # noqa
            pass
        w.__rv_orig__ = orig
        self.orig.append((owner, name, orig))
        setattr(owner, name, w)

    def detach(self):
        for owner, name, orig in reversed(self.orig):
            setattr(owner, name, orig)
        self.orig = []

    def chk(self, ok, mech, **detail):
        detail['workload'] = self.tag
        return self.ctx.check(ok, mech, self.cid, **detail)

    # -- C03 / C06 / C07: unit conversions -------------------------------------
    def attach_transform(self):
        T = self.F.transform
        self.rebind(T, 'to_rfi', lambda orig: self._wrap_to_rfi(orig))
        self.rebind(T, 'to_mef', lambda orig: self._wrap_to_mef(orig))
        self.rebind(T, 'transform', lambda orig: self._wrap_transform(orig))

    def _wrap_to_rfi(self, orig):
        def to_rfi(data, channels=None, amplification_type=None, amplifier_gain=None, resolution=None):
            pre = snapshot(data)
            out = orig(data, channels, amplification_type, amplifier_gain, resolution)
            try:
                oracle_to_rfi(self, pre, data, channels, amplification_type, amplifier_gain, resolution, out)
            except Exception as e:   # noqa  oracle crash = harness problem, recorded, not a verdict
                self.ctx.note('oracle-error to_rfi: ' + core.exc_str(e))
                self.ctx.counters['oracle_errors'] += 1
            return out
        return to_rfi

    def _wrap_to_mef(self, orig):
        def to_mef(data, channels, sc_list, sc_channels=None):
            pre = snapshot(data)
            out = orig(data, channels, sc_list, sc_channels)
            try:
                oracle_to_mef(self, pre, data, channels, sc_list, sc_channels, out)
            except Exception as e:   # noqa
                self.ctx.note('oracle-error to_mef: ' + core.exc_str(e))
                self.ctx.counters['oracle_errors'] += 1
            return out
        return to_mef

    def _wrap_transform(self, orig):
        def transform(data, channels, transform_fxn, def_channels=None):
            pre = snapshot(data)
            out = orig(data, channels, transform_fxn, def_channels)
            try:
                oracle_transform(self, pre, data, channels, transform_fxn, def_channels, out)
            except Exception as e:   # noqa
                self.ctx.note('oracle-error transform: ' + core.exc_str(e))
                self.ctx.counters['oracle_errors'] += 1
            return out
        return transform


# ------------------------------------------------------------------------------
# helpers
# ------------------------------------------------------------------------------

class Snap(object):
    __slots__ = ('f64', 'raw', 'meta', 'per', 'sample', 'shape', 'dtype')


def snapshot(data):
    s = Snap()
    a = np.asarray(data)
    s.raw = np.array(a, copy=True)
    s.f64 = np.array(a, dtype=np.float64, copy=True)      # C-contiguous, same strides as data.copy().astype(float64)
    s.sample = is_sample(data)
    s.shape = a.shape
    s.dtype = a.dtype
    s.meta = zoo.meta(data) if s.sample else None
    s.per = zoo.per_channel(data) if s.sample else None
    return s


def norm_channels(data, channels, default=None):
    """oracle-side normalisation of a channel argument -> (list of positions, was_scalar)."""
    if channels is None:
        channels = default
    scalar = not (hasattr(channels, '__iter__') and not isinstance(channels, str))
    lst = [channels] if scalar else list(channels)
    D = data.shape[1] if data.ndim > 1 else data.shape[0]
    pos = []
    for c in lst:
        if isinstance(c, str):
            pos.append(list(data.channels).index(c))
        else:
            c = int(c)
            pos.append(c if c >= 0 else D + c)
    return pos, scalar


def file_settings(data, name):
    """Amplifier settings of channel `name` derived by the oracle from the keywords."""
    text = data.text
    n = None
    for k, v in text.items():
        if k.startswith('$P') and k.endswith('N') and k[2:-1].isdigit() and v == name:
            n = int(k[2:-1])
            break
    if n is None:
        return None
    pne = text.get('$P%dE' % n)
    at = None
    if pne is not None:
        a = [float(x) for x in pne.split(',')]
        if a[0] != 0 and a[1] == 0:
            a[1] = 1.0
        at = (a[0], a[1])
    r = int(float(text['$P%dR' % n]))
    g = text.get('$P%dG' % n)
    if g is None and 'FlowJoCollectorsEdition' in text.get('CREATOR', ''):
        g = text.get('CytekP%02dG' % n)
    try:
        g = float(g) if g is not None else None
    except ValueError:
        g = None
    return at, r, g


def meta_equal_except_range(mon, pre, out, mech):
    if not pre.sample:
        return True
    ok = is_sample(out)
    mon.chk(ok, mech + ':class-lost', type=type(out).__name__)
    if not ok:
        return False
    m = zoo.meta(out, with_range=False)
    bad = [k for k in m if k != 'range' and not _eq(m[k], pre.meta[k])]
    return mon.chk(not bad, mech + ':metadata-changed', keys=bad,
                   got={k: m[k] for k in bad[:3]}, want={k: pre.meta[k] for k in bad[:3]})


def _eq(a, b):
    try:
        return bool(a == b)
    except Exception:   # noqa
        return repr(a) == repr(b)


def input_unchanged(mon, pre, data, mech):
    a = np.asarray(data)
    ok = a.shape == pre.shape and a.dtype == pre.dtype and a.tobytes() == pre.raw.tobytes()
    if ok and pre.sample:
        m = zoo.meta(data)
        bad = [k for k in m if not _eq(m[k], pre.meta[k])]
        ok = not bad
    return mon.chk(ok, mech + ':input-mutated')


def limits_follow_events(mon, pre, out, positions, mech):
    """C07: bitwise, each converted channel's limits are the values events at the old limits now have."""
    if not (pre.sample and is_sample(out)):
        return
    rng_out = out.range()
    for p in positions:
        r0 = pre.meta['range'][p]
        r1 = rng_out[p]
        if r0 is None or r1 is None:
            continue
        col0 = pre.f64[:, p]
        col1 = np.asarray(out)[:, p]
        for side in (0, 1):
            idx = np.nonzero(col0 == r0[side])[0]
            if len(idx) == 0:
                mon.ctx.counters['c07_no_event_at_limit'] += 1
                continue
            lim = np.float64(r1[side])
            vals = col1[idx]
            ok = bool(np.all(vals == lim))
            mon.ctx.counters['chk_c07_limit_events'] += 1
            if not mon.judge_limits:
                if not ok:
                    mon.ctx.note('C07 clause (observed, judged by C07 only): limit differs from event value')
                continue
            mon.chk(ok, mech + ':limit-not-event-value', channel=int(p), side=side,
                    limit=float(lim), event_value=float(vals[0]), old_limit=float(r0[side]),
                    ulp=float(abs(vals[0] - lim) / max(np.spacing(abs(lim)), 1e-300)))
    # unconverted channels keep their limits
    for p in range(len(rng_out)):
        if p not in positions:
            mon.chk(_eq(rng_out[p], pre.meta['range'][p]) or
                    (rng_out[p] is not None and list(map(float, rng_out[p])) == pre.meta['range'][p]),
                    mech + ':unconverted-range-changed', channel=p,
                    got=rng_out[p], want=pre.meta['range'][p])


def oracle_to_rfi(mon, pre, data, channels, at_arg, ag_arg, r_arg, out):
    if data.ndim != 2:
        mon.ctx.note('to_rfi on non-2D input (not judged)')
        return
    pos, scalar = norm_channels(data, channels, default=list(range(data.shape[1])))
    k = len(pos)
    if scalar:
        ats, ags, rs = [at_arg], [ag_arg], [r_arg]
    else:
        ats = list(at_arg) if at_arg is not None else [None] * k
        ags = list(ag_arg) if ag_arg is not None else [None] * k
        rs = list(r_arg) if r_arg is not None else [None] * k
    outa = np.asarray(out)
    mon.chk(outa.shape == pre.shape and outa.dtype == np.float64, 'rfi:shape-dtype',
            shape=list(outa.shape), dtype=str(outa.dtype))
    if len(set(pos)) != len(pos):
        mon.ctx.note('to_rfi with repeated channel (not judged)')
        return
    for p, at, ag, r in zip(pos, ats, ags, rs):
        fs = file_settings(data, data.channels[p]) if pre.sample else None
        if at is None:
            at = fs[0] if fs else None
        if at is None:
            mon.chk(False, 'rfi:law', why='no amplification type yet call returned', channel=p)
            continue
        x = pre.f64[:, p]
        if at[0] == 0:
            if ag is None:
                ag = fs[2] if fs else None
            if ag is None:
                ag = 1.0
            exp = x / ag
            law = ('lin', float(ag))
        else:
            if r is None:
                r = fs[1] if fs else None
            exp = at[1] * 10 ** (at[0] * x / float(r))
            law = ('log', float(at[0]), float(at[1]), float(r))
        got = outa[:, p]
        ok = np.allclose(got, exp, rtol=1e-12, atol=0) if len(x) else True
        mon.chk(ok, 'rfi:law', channel=int(p), law=law,
                worst=None if ok else float(np.nanmax(np.abs(got - exp) / np.maximum(np.abs(exp), 1e-300))),
                x0=float(x[0]) if len(x) else None, got0=float(got[0]) if len(x) else None,
                want0=float(exp[0]) if len(x) else None)
        if pre.sample and is_sample(out):
            r0 = pre.meta['range'][p]
            r1 = out.range(p)
            if r0 is not None:
                f = (lambda v: v / ag) if at[0] == 0 else (lambda v: at[1] * 10 ** (at[0] * v / float(r)))
                ok = r1 is not None and np.allclose([float(r1[0]), float(r1[1])], [f(r0[0]), f(r0[1])], rtol=1e-12)
                mon.chk(ok, 'rfi:range-law', channel=int(p), got=r1, want=[f(r0[0]), f(r0[1])])
    others = [j for j in range(pre.shape[1]) if j not in pos]
    if others:
        ok = outa[:, others].tobytes() == pre.f64[:, others].tobytes()
        mon.chk(ok, 'rfi:untouched-columns', others=others)
    meta_equal_except_range(mon, pre, out, 'rfi')
    limits_follow_events(mon, pre, out, pos, 'rfi')
    input_unchanged(mon, pre, data, 'rfi')


def oracle_to_mef(mon, pre, data, channels, sc_list, sc_channels, out):
    if data.ndim != 2:
        mon.ctx.note('to_mef on non-2D input (not judged)')
        return
    D = data.shape[1]
    scp, _ = norm_channels(data, sc_channels, default=list(range(D)))
    req, _ = norm_channels(data, channels, default=scp)
    # the call returned: so the request must have been satisfiable
    ok = len(scp) == len(sc_list)
    mon.chk(ok, 'mef:length-mismatch-accepted', n_curves=len(sc_list), n_channels=len(scp))
    unc = [p for p in req if p not in scp]
    mon.chk(not unc, 'mef:uncovered-request-passed-through', uncovered=unc, requested=req, covered=scp)
    if not ok or len(set(scp)) != len(scp):
        return
    curve = dict(zip(scp, sc_list))
    outa = np.asarray(out)
    mon.chk(outa.shape == pre.shape and outa.dtype == np.float64, 'mef:shape-dtype',
            shape=list(outa.shape), dtype=str(outa.dtype))
    conv = sorted(set(p for p in req if p in curve))
    for p in conv:
        exp = np.asarray(curve[p](pre.f64[:, p]))
        got = outa[:, p]
        ok = got.tobytes() == np.asarray(exp, dtype=np.float64).tobytes()
        if not ok and np.allclose(got, exp, rtol=1e-13, atol=0, equal_nan=True):
            mon.ctx.counters['mef_value_ulp_noise'] += 1   # evaluation noise only: reported, not a verdict
            ok = True
        mon.chk(ok, 'mef:own-curve', channel=int(p), requested=req, covered=scp,
                got0=float(got[0]) if len(got) else None, want0=float(exp[0]) if len(got) else None)
    others = [j for j in range(D) if j not in conv]
    if others:
        mon.chk(outa[:, others].tobytes() == pre.f64[:, others].tobytes(), 'mef:untouched-columns', others=others,
                requested=req, covered=scp)
    meta_equal_except_range(mon, pre, out, 'mef')
    limits_follow_events(mon, pre, out, conv, 'mef')
    input_unchanged(mon, pre, data, 'mef')


def oracle_transform(mon, pre, data, channels, fxn, def_channels, out):
    if data.ndim != 2:
        return
    D = data.shape[1]
    pos, _ = norm_channels(data, channels, default=def_channels if def_channels is not None else list(range(D)))
    outa = np.asarray(out)
    if len(set(pos)) != len(pos):
        return
    others = [j for j in range(D) if j not in pos]
    if others:
        mon.chk(outa[:, others].tobytes() == pre.f64[:, others].tobytes(), 'transform:untouched-columns', others=others)
    meta_equal_except_range(mon, pre, out, 'transform')
    limits_follow_events(mon, pre, out, pos, 'transform')
    input_unchanged(mon, pre, data, 'transform')
