"""./check <prop> [--tier quick|thorough] [--jobs N] [--replay path]

Plans shards, runs workers as subprocesses, merges their recorded events,
classifies violations against known_findings.json, writes evidence and replay
files, prints the verdict and sets the exit status:
  0 held on everything explored (KNOWN-FINDING lines possible)
  1 violation not listed in known_findings.json
  2 inconclusive (harness error, timeout, deciding monitor not reached)
"""
import argparse
import collections
import importlib
import json
import os
import shutil
import subprocess
import sys
import tempfile
import time

from rv import core

PY = sys.executable


def tree_identity(root):
    def git(*a):
        try:
            return subprocess.run(['git', '-C', root] + list(a), capture_output=True,
                                  text=True, timeout=20).stdout.strip()
        except Exception:
            return ''
    return {'root': root, 'head': git('rev-parse', 'HEAD'),
            'dirty': bool(git('status', '--porcelain', '--untracked-files=no'))}


def versions():
    out = {}
    for m in ('numpy', 'scipy', 'sklearn', 'matplotlib', 'pandas', 'skimage', 'openpyxl'):
        try:
            out[m] = importlib.import_module(m).__version__
        except Exception as e:   # noqa
            out[m] = 'n/a'
    out['python'] = sys.version.split()[0]
    return out


def load_known():
    p = os.path.join(core.VERIF, 'known_findings.json')
    if not os.path.exists(p):
        return {'open': [], 'fixed': []}
    with open(p) as f:
        return json.load(f)


def run_workers(prop, tier, seed, nshards, timeout, only=None, budget=None):
    outdir = tempfile.mkdtemp(prefix='rvrun_%s_' % prop,
                              dir='/dev/shm' if os.path.isdir('/dev/shm') else None)
    env = dict(os.environ)
    env.update({'OMP_NUM_THREADS': '1', 'OPENBLAS_NUM_THREADS': '1',
                'MKL_NUM_THREADS': '1', 'MPLBACKEND': 'Agg',
                'PYTHONHASHSEED': '0', 'PYTHONPATH': core.VERIF,
                core.GUARD: '1', 'RV_WATCHDOG_S': str(int(timeout + 30)),
                'PYTHONDONTWRITEBYTECODE': '1'})
    if budget:
        env['RV_SHARD_BUDGET_S'] = str(budget)
    procs = []
    for s in range(nshards):
        out = os.path.join(outdir, 'shard%d.json' % s)
        cmd = [PY, '-m', 'rv.worker', prop, tier, str(seed), str(s), str(nshards), out]
        if only is not None:
            cmd.append(json.dumps(only))
        log = open(os.path.join(outdir, 'shard%d.log' % s), 'w')
        procs.append((s, out, log, subprocess.Popen(cmd, env=env, cwd=core.VERIF,
                                                    stdout=log, stderr=subprocess.STDOUT)))
    results, problems = [], []
    t_end = time.time() + timeout
    for s, out, log, p in procs:
        try:
            p.wait(timeout=max(1, t_end - time.time()))
        except subprocess.TimeoutExpired:
            p.kill()
            p.wait()
            problems.append('shard %d: wall-clock watchdog fired (inconclusive)' % s)
        log.close()
        if os.path.exists(out):
            with open(out) as f:
                results.append(json.load(f))
        else:
            with open(log.name) as f:
                tail = f.read()[-1500:]
            problems.append('shard %d: no result (rc=%s) %s' % (s, p.returncode, tail))
    shutil.rmtree(outdir, ignore_errors=True)
    return results, problems


def merge(results):
    m = {'counters': collections.Counter(), 'classes': collections.Counter(),
         'distinct': set(), 'distinct_extra': 0, 'violations': [], 'n_violations': 0,
         'samples': [], 'notes': collections.Counter(), 'refusals': collections.Counter(),
         'errors': [], 'flowcal_file': None, 'reach': collections.Counter()}
    for r in results:
        m['counters'].update(r['counters'])
        m['classes'].update(r['classes'])
        m['distinct'].update(r['distinct'])
        m['distinct_extra'] += r['distinct_extra']
        m['violations'].extend(r['violations'])
        m['n_violations'] += r['n_violations']
        if len(m['samples']) < 6:
            m['samples'].extend(r['samples'][:2])
        m['notes'].update(r['notes'])
        m['refusals'].update(r['refusals'])
        m['reach'].update(r.get('reach', {}))
        if r.get('status') != 'ok':
            m['errors'].append('shard %s: %s' % (r.get('shard'), r.get('error', '?')))
        m['flowcal_file'] = r.get('flowcal_file') or m['flowcal_file']
    return m


def main(argv=None):
    ap = argparse.ArgumentParser()
    ap.add_argument('prop')
    ap.add_argument('--tier', default=os.environ.get('VERIF_TIER') or 'quick',
                    choices=['quick', 'thorough'])
    ap.add_argument('--jobs', type=int, default=int(os.environ.get('RV_JOBS', '0') or 0))
    ap.add_argument('--replay')
    args = ap.parse_args(argv)
    prop = args.prop.upper()
    seed = int(os.environ.get('VERIF_SEED', '0') or 0)
    tier = args.tier
    t0 = time.time()
    mod = importlib.import_module('rv.props.' + prop.lower())
    only = None
    if args.replay:
        with open(args.replay) as f:
            w = json.load(f)
        only, tier, seed = w['case_id'], w['tier'], w['seed']
        if isinstance(only, list):
            only = tuple(only)
    jobs = args.jobs or min(4, os.cpu_count() or 4)
    nshards = 1 if only is not None else min(jobs, getattr(mod, 'MAX_SHARDS', 16))
    timeout = getattr(mod, 'TIMEOUT_S', {'quick': 900, 'thorough': 7200})[tier]
    budget = getattr(mod, 'BUDGET_S', {}).get(tier)
    results, problems = run_workers(prop, tier, seed, nshards, timeout, only, budget)
    m = merge(results)
    problems.extend(m['errors'])

    # ---- classify violations ------------------------------------------------
    known = load_known()
    open_keys = {k['key']: k for k in known.get('open', []) if k['property'] == prop}
    classify = getattr(mod, 'classify', lambda v: v.get('detail', {}).get('known_key'))
    unlisted, hit = [], collections.Counter()
    for v in m['violations']:
        key = classify(v)
        if key is not None and key in open_keys:
            hit[key] += 1
        else:
            unlisted.append(v)
    # counts of violations per mechanism beyond the kept witnesses
    viol_mech = {k[5:]: n for k, n in m['counters'].items() if k.startswith('viol:')}
    kept_mech = collections.Counter(v['mechanism'] for v in m['violations'])
    # a mechanism all of whose kept witnesses are known is known; otherwise unlisted
    replay_paths = []
    rdir = os.path.join(core.VERIF, 'replays', prop)
    if unlisted:
        os.makedirs(rdir, exist_ok=True)
        for v in unlisted[:10]:
            p = os.path.join(rdir, '%s_%s.json' % (v['mechanism'].replace('/', '_').replace(':', '_')[:40],
                                                  core.digest(v['case_id'], v['seed'], v['tier'])))
            with open(p, 'w') as f:
                json.dump(v, f, indent=1)
            replay_paths.append((v, p))

    min_checks = getattr(mod, 'MIN_CHECKS', {'quick': 50, 'thorough': 200})[tier]
    inconclusive = list(problems)
    if only is None and m['counters']['checks'] < min_checks:
        inconclusive.append('deciding monitors evaluated %d times (< floor %d)'
                            % (m['counters']['checks'], min_checks))
    anchors = getattr(mod, 'ANCHORS', [])
    for a in anchors:
        if only is None and not any(k == a or k.endswith(':' + a) or k.endswith('.' + a) for k in m['reach']):
            inconclusive.append('anchored function %r was never entered' % a)
    for name in getattr(mod, 'REQUIRED_COUNTERS', []):
        if only is None and m['counters'][name] == 0:
            inconclusive.append('required monitor %r never evaluated' % name)

    extra_cov = {}
    if hasattr(mod, 'summarize') and only is None:
        extra_cov, more = mod.summarize(m, tier)
        inconclusive.extend(more)
    distinct = len(m['distinct']) + m['distinct_extra']
    level = getattr(mod, 'LEVEL', 'exploration')
    evidence = {
        'property_id': prop, 'tier': tier, 'seed': seed, 'level': level,
        'coverage': {
            'evaluations': int(m['counters']['cases']),
            'distinct_nontrivial': int(distinct),
            'rule': getattr(mod, 'RULE', ''),
            'samples': m['samples'][:6] or ['(no sample recorded)'],
            'oracle_checks': int(m['counters']['checks']),
            'monitors': {k[4:]: n for k, n in sorted(m['counters'].items()) if k.startswith('chk:')},
            'classes_seen': len(m['classes']),
            'classes': dict(sorted(m['classes'].items(), key=lambda kv: -kv[1])[:60]),
            'counters': {k: n for k, n in sorted(m['counters'].items())
                         if not k.startswith(('chk:', 'viol:', 'kept:'))},
            'observations': dict(m['notes']),
            'refusals_observed': dict(m['refusals']),
            'reach': {'note': 'entries of repository functions during this run (counting stops at 500 per function and shard)',
                      'anchored': {a: int(sum(n for k, n in m['reach'].items() if k == a or k.endswith(':' + a) or k.endswith('.' + a))) for a in anchors},
                      'functions_entered': len(m['reach']),
                      'top': dict(sorted(m['reach'].items(), key=lambda kv: -kv[1])[:25])},
            'known_findings_hit': dict(hit),
            'violations_by_mechanism': viol_mech,
            'inconclusive': inconclusive,
            'exhaustive': bool(getattr(mod, 'EXHAUSTIVE', {}).get(tier, False)),
            'tree': tree_identity(core.repo_root()),
            'flowcal_file': m['flowcal_file'],
            'versions': versions(),
            'shards': nshards,
        },
        'assumptions': getattr(mod, 'ASSUMPTIONS', []),
        'wall_s': round(time.time() - t0, 2),
        'violations': len(unlisted),
    }
    evidence['coverage'].update(extra_cov)
    if only is None and not os.environ.get('RV_NO_EVIDENCE'):
        os.makedirs(os.path.join(core.VERIF, 'evidence'), exist_ok=True)
        with open(os.path.join(core.VERIF, 'evidence', prop + '.json'), 'w') as f:
            json.dump(evidence, f, indent=1, sort_keys=True)

    print('%s tier=%s seed=%d cases=%d checks=%d distinct_nontrivial=%d classes=%d wall=%.1fs'
          % (prop, tier, seed, m['counters']['cases'], m['counters']['checks'], distinct,
             len(m['classes']), time.time() - t0))
    for k, n in sorted(viol_mech.items()):
        print('  observed mechanism %s x%d' % (k, n))
    for key in sorted(open_keys):
        # every listed open finding of this property, with the number of witnesses met in this run (rare mechanisms are
        # not met by every seed or tier; the listed witness in known_findings.json reproduces them)
        print('KNOWN-FINDING: property=%s %s (%s; %d witnesses this run)'
              % (prop, key, open_keys[key]['what'], hit.get(key, 0)))
    for v, p in replay_paths:
        print('VIOLATION property=%s replay=%s mechanism=%s' % (prop, p, v['mechanism']))
        print('   detail: %s' % json.dumps(v['detail'])[:600])
    if unlisted:
        return 1
    if inconclusive:
        for r in inconclusive:
            print('INCONCLUSIVE property=%s reason=%s' % (prop, r[:1500]))
        return 2
    print('HELD property=%s on everything explored' % prop)
    return 0


if __name__ == '__main__':
    sys.exit(main())
