"""Independent logicle reference: p by bisection, biexponential in extended precision."""
import math

import numpy as np

L = np.longdouble


def solve_p(W):
    """p >= 1 with W = 2 p log10(p) / (p + 1), by bisection."""
    if W == 0:
        return 1.0
    f = lambda p: 2 * p * math.log10(p) / (p + 1) - W
    lo, hi = 1.0, 10.0
    while f(hi) < 0:
        hi *= 10
    for _ in range(200):
        mid = 0.5 * (lo + hi)
        if f(mid) < 0:
            lo = mid
        else:
            hi = mid
    return 0.5 * (lo + hi)


def forward(s, T, M, W, p=None):
    """display s -> data x (published biexponential), extended precision."""
    p = L(solve_p(W) if p is None else p)
    s = np.asarray(s, dtype=L)
    T, M, W = L(T), L(M), L(W)
    ten = L(10)
    return T * ten ** (-(M - W)) * (ten ** (s - W) - p * p * ten ** (-(s - W) / p) + p * p - 1)


def derive(datas, channel, ranges_known):
    """Documented derivation rules. datas: list of 1-D numpy arrays (the channel values);
    ranges_known: list of upper range limits or None."""
    T = 0
    for y, r in zip(datas, ranges_known):
        Ti = r if r is not None else float(np.max(y))
        T = max(T, Ti)
    if T <= 0:
        return T, None, None          # no valid logicle scale: construction must be refused
    M = max(4.5, 4.5 * math.log10(T) / math.log10(262144))
    W = 0
    for y in datas:
        if np.any(y < 0):
            r = float(np.min(y))
            W = max(W, (M - math.log10(T / abs(r))) / 2)
    return T, M, W
