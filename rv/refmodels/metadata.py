"""Reference derivation of FCSData's attributes from the TEXT keywords alone, written from the class
docstring and the FCS standards (independent of FlowCal.io's implementation)."""
import datetime
import re

MONTHS = {m: i + 1 for i, m in enumerate(['jan', 'feb', 'mar', 'apr', 'may', 'jun', 'jul', 'aug', 'sep', 'oct', 'nov', 'dec'])}


def to_float(v):
    """float(v) semantics for keyword text, None when it is not a number."""
    if v is None:
        return None
    try:
        return float(v)
    except ValueError:
        return None


def parse_time(v):
    """-> None | (h, m, s, microseconds as float). Formats: hh:mm:ss, hh:mm:ss:tt (1/60 s), hh:mm:ss.cc"""
    if v is None:
        return None
    parts = v.split(':')
    frac = 0.0
    try:
        if len(parts) == 4:
            tt = float(parts[3])
            frac = tt * 1e6 / 60.0
            h, m, sec = parts[0], parts[1], parts[2]
        elif len(parts) == 3:
            h, m, sec = parts
            if '.' in sec:
                sec, cc = sec.split('.', 1)
                if not re.fullmatch(r'\d{1,6}', cc):
                    return None
                frac = float('0.' + cc) * 1e6
        else:
            return None
        if not (re.fullmatch(r'\d{1,2}', h) and re.fullmatch(r'\d{1,2}', m) and re.fullmatch(r'\d{1,2}', sec)):
            return None
        h, m, sec = int(h), int(m), int(sec)
        if not (0 <= h < 24 and 0 <= m < 60 and 0 <= sec <= 61 and 0 <= frac < 1e6):
            return None
        if sec >= 60:
            return 'leap'          # strptime accepts :60/:61 but time() cannot hold it: not judged
        return (h, m, sec, frac)
    except ValueError:
        return None


def parse_date(v):
    """-> datetime.date | None | 'ambiguous'. dd-mmm-yy, dd-mmm-yyyy, yy-mmm-dd, yyyy-mmm-dd."""
    if v is None:
        return None
    m = re.fullmatch(r'(\d{1,4})-([A-Za-z]{3})-(\d{1,4})', v)
    if not m or m.group(2).lower() not in MONTHS:
        return None
    a, mon, b = m.group(1), MONTHS[m.group(2).lower()], m.group(3)

    def yr2(y):
        y = int(y)
        return 1900 + y if y >= 69 else 2000 + y
    cands = []
    if len(a) <= 2 and len(b) == 2:
        cands.append((yr2(b), mon, int(a)))
    if len(a) <= 2 and len(b) == 4:
        cands.append((int(b), mon, int(a)))
    if len(a) == 2 and len(b) <= 2:
        cands.append((yr2(a), mon, int(b)))
    if len(a) == 4 and len(b) <= 2:
        cands.append((int(a), mon, int(b)))
    ok = []
    for y, mo, d in cands:
        try:
            ok.append(datetime.date(y, mo, d))
        except ValueError:
            pass
    if not ok:
        return None
    # candidates are in the documented order of precedence (standard formats first)
    return ok[0]


def derive(text):
    D = int(text['$PAR'])
    out = {'channels': tuple(text.get('$P%dN' % i) for i in range(1, D + 1)),
           'labels': [text.get('$P%dS' % i) for i in range(1, D + 1)]}
    R = [float(text['$P%dR' % i]) for i in range(1, D + 1)]
    out['range'] = [[0.0, r - 1] for r in R]
    out['resolution'] = [int(r) for r in R]
    amp = []
    for i in range(1, D + 1):
        e = text.get('$P%dE' % i)
        if e is None:
            amp.append(None)
            continue
        a = [float(x) for x in e.split(',')]
        if a[0] != 0 and a[1] == 0:
            a[1] = 1.0
        amp.append(tuple(a))
    out['amp'] = amp
    creator = text.get('CREATOR', '')
    volt, gain = [], []
    for i in range(1, D + 1):
        v = text.get('$P%dV' % i)
        if v is None and 'CellQuest Pro' in creator:
            v = text.get('BD$WORD%d' % (12 + i))
        volt.append(to_float(v))
        g = text.get('$P%dG' % i)
        if g is None and 'FlowJoCollectorsEdition' in creator:
            g = text.get('CytekP%02dG' % i)
        gain.append(to_float(g))
    out['volt'], out['gain'] = volt, gain
    # time step: standard keyword, else legacy keyword in milliseconds; unparseable standard keyword: absent or legacy
    if '$TIMESTEP' in text:
        ts = to_float(text['$TIMESTEP'])
        legacy = to_float(text.get('TIMETICKS'))
        out['time_step'] = [ts] if ts is not None else [None, None if legacy is None else legacy / 1000.0]
    elif 'TIMETICKS' in text:
        legacy = to_float(text['TIMETICKS'])
        out['time_step'] = [None if legacy is None else legacy / 1000.0]
    else:
        out['time_step'] = [None]
    out['start'] = parse_time(text.get('$BTIM'))
    out['end'] = parse_time(text.get('$ETIM'))
    out['date'] = parse_date(text.get('$DATE'))
    return out
