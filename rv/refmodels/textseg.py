"""Independent left-to-right tokenizer for FCS TEXT-like segments.

FlowCal scans backwards counting run parity; this reference scans forwards.
Outcome classes: ('ok', dict), ('warn', dict) for the one tolerated ill-formed
ending (segment ends with an even run of delimiters), ('error', None).
"""


def parse(raw, delim, supplemental):
    if raw == '':
        return 'ok', {}
    if not supplemental and raw[0] != delim:
        return 'error', None
    last = raw.rfind(delim)
    if last == -1:
        return 'ok', {}           # supplemental segment without any delimiter
    s = raw[:last + 1]            # everything after the last delimiter is ignored
    n = len(s)
    k = 0
    while k < n and s[k] == delim:
        k += 1
    if k == n:
        # nothing but delimiters
        return ('ok', {}) if n == 1 else ('error', None)
    if k >= 2:
        return 'error', None      # first keyword would start with a delimiter
    tokens, cur, warn = [], '', False
    i = k
    while i < n:
        c = s[i]
        if c != delim:
            cur += c
            i += 1
            continue
        j = i
        while j < n and s[j] == delim:
            j += 1
        r = j - i
        if j == n:                # trailing run, closes the segment
            if r % 2 == 1:
                cur += delim * ((r - 1) // 2)
            else:
                warn = True       # tolerated ill-formed ending
            tokens.append(cur)
            break
        if r % 2 == 0:
            cur += delim * (r // 2)
        else:
            cur += delim * ((r - 1) // 2)
            tokens.append(cur)
            cur = ''
        i = j
    if len(tokens) % 2:
        return 'error', None
    return ('warn' if warn else 'ok'), dict(zip(tokens[0::2], tokens[1::2]))
