"""Deep structural digests of arguments and samples, through public accessors only."""
import hashlib
import types

import numpy as np

from rv import zoo


def _arr_digest(a):
    a = np.asarray(a)
    h = hashlib.blake2b(digest_size=8)
    if a.dtype.kind in 'OUS':
        h.update(repr(a.tolist()).encode('utf-8', 'replace'))
    else:
        # canonical (native) byte order: byte order itself is not part of a value digest
        h.update(np.ascontiguousarray(a).astype(a.dtype.newbyteorder('='), copy=False).tobytes())
    return h.hexdigest()


def is_sample(o):
    return isinstance(o, np.ndarray) and hasattr(o, 'channels') and hasattr(o, 'range')


def fp(o, depth=0, ident=True):
    """Nested, comparable fingerprint. ident=True includes container identity."""
    if depth > 5:
        return ('deep', type(o).__name__)
    if is_sample(o):
        try:
            m = zoo.meta(o)
        except Exception as e:   # noqa  (e.g. objects with partial metadata)
            m = ('meta-unreadable', type(e).__name__)
        return ('sample', type(o).__name__, o.dtype.kind, o.dtype.itemsize, o.shape, _arr_digest(np.asarray(o)),
                _canon(m))
    if isinstance(o, np.ma.MaskedArray):
        return ('masked', o.dtype.kind, o.shape, _arr_digest(o.filled(0)), _arr_digest(np.ma.getmaskarray(o)))
    if isinstance(o, np.ndarray):
        return ('ndarray', type(o).__name__, o.dtype.kind, o.dtype.itemsize, o.shape, _arr_digest(o))
    if isinstance(o, (list, tuple)):
        return (type(o).__name__, id(o) if ident and isinstance(o, list) else 0, len(o),
                tuple((id(x) if ident and isinstance(x, (list, dict, np.ndarray)) else 0, fp(x, depth + 1, ident))
                      for x in o))
    if isinstance(o, dict):
        return ('dict', id(o) if ident else 0, len(o),
                tuple(sorted(((repr(k), fp(v, depth + 1, ident)) for k, v in o.items()), key=lambda kv: kv[0])))
    if isinstance(o, (types.FunctionType, types.BuiltinFunctionType, types.MethodType)) or callable(o):
        return ('callable', id(o))
    if isinstance(o, (np.generic,)):
        return ('npscalar', o.dtype.kind, repr(o.item()))
    return ('py', type(o).__name__, repr(o)[:200])


def _canon(m):
    if isinstance(m, dict):
        return tuple(sorted((str(k), _canon(v)) for k, v in m.items()))
    if isinstance(m, (list, tuple)):
        return tuple(_canon(x) for x in m)
    if isinstance(m, np.ndarray):
        return ('arr', _arr_digest(m))
    if isinstance(m, float):
        return repr(m)
    return repr(m)


def diff(a, b, path=''):
    """First difference between two fingerprints, as a short string."""
    if a == b:
        return None
    if isinstance(a, tuple) and isinstance(b, tuple) and len(a) == len(b):
        for i, (x, y) in enumerate(zip(a, b)):
            d = diff(x, y, path + '/%d' % i)
            if d:
                return d
    return '%s: %s != %s' % (path, repr(a)[:160], repr(b)[:160])
