"""Generator of small Excel-UI experiments: FCS files + instruments / beads / samples tables."""
import os

import numpy as np
import pandas as pd

from rv import fcsgen

MEF_LADDER = [800, 5000, 30000, 180000, 1000000]


def instrument(idx, nfl):
    pre = ['', 'B-', 'Y'][idx % 3]
    fl = ['%sFL%d-H' % (pre, i + 1) for i in range(nfl)]
    return dict(ID='Inst%d' % idx, fsc='%sFSC-H' % pre, ssc='%sSSC-H' % pre, fl=fl, time='%sTime' % pre)


def blob(rng, n, R):
    """scatter blob (integer channel numbers) with a few outliers and saturated events."""
    x = rng.normal(0.45 * R, 0.06 * R, size=n)
    y = rng.normal(0.40 * R, 0.07 * R, size=n)
    out = rng.random(n) < 0.05
    x[out] = rng.uniform(0, R, size=out.sum())
    y[out] = rng.uniform(0, R, size=out.sum())
    sat = rng.random(n) < 0.02
    x[sat] = R - 1
    zero = rng.random(n) < 0.01
    y[zero] = 0
    return np.clip(np.round(x), 0, R - 1), np.clip(np.round(y), 0, R - 1)


def beads_file(rng, inst, path, npop=4, per=140, floatdata=False, voltage=None, amp_log=True, with_time=True):
    R = 1024
    n = npop * per + 350
    fsc, ssc = blob(rng, n, R)
    cols = [fsc, ssc]
    centers = np.linspace(150, 850, npop) if amp_log else np.linspace(60, 420, npop)
    lab = np.concatenate([rng.integers(0, npop, size=350), np.repeat(np.arange(npop), per)])
    rng.shuffle(lab)
    for j, ch in enumerate(inst['fl']):
        c = centers[lab] * (1 + 0.03 * (j % 5)) + rng.normal(0, 4, size=n)      # (kept clear of the upper limit for any number of channels)
        cols.append(np.clip(np.round(c), 0, R - 1))
    names = [inst['fsc'], inst['ssc']] + inst['fl']
    if with_time:
        cols.append(np.sort(rng.integers(0, R, size=n)))
        names = names + [inst['time']]
    D = len(names)
    ev = [[int(cols[j][i]) for j in range(D)] for i in range(n)]
    pne = ['4,1', '4,1'] + [('4,1' if amp_log else '0,0')] * len(inst['fl']) + (['0,0'] if with_time else [])
    volt = voltage or [str(400 + 10 * j) for j in range(D)]
    spec = dict(version='FCS3.0', datatype='I', widths=[16] * D, events=ev, ranges=[R] * D, names=names, pne=pne,
                pnv=volt, png=[None] * D, extra=[('$TIMESTEP', '0.01'), ('$BTIM', '10:00:00'), ('$ETIM', '10:02:00'),
                                                ('$DATE', '05-JAN-2021')])
    raw, _ = fcsgen.build(spec)
    with open(path, 'wb') as f:
        f.write(raw)
    return spec


def sample_file(rng, inst, path, n=None, floatdata=False, voltage=None, amp_log=True, with_time=True, time_info='full',
                fl_overrides=None, col_perm=None):
    R = 1024
    n = n or int(rng.integers(450, 900))
    fsc, ssc = blob(rng, n, R)
    cols = [fsc, ssc]
    for j, ch in enumerate(inst['fl']):
        c = rng.normal(300 + 120 * (j % 4), 60, size=n)      # (inside the range for any number of channels)
        z = rng.random(n) < 0.03 / max(1, len(inst['fl']) / 3.0)
        c[z] = 0
        s = rng.random(n) < 0.02 / max(1, len(inst['fl']) / 3.0)
        c[s] = R - 1
        cols.append(np.clip(np.round(c), 0, R - 1))
    names = [inst['fsc'], inst['ssc']] + inst['fl']
    if with_time:
        cols.append(np.sort(rng.integers(0, R, size=n)))
        names = names + [inst['time']]
    D = len(names)
    extra = []
    if time_info in ('full', 'nodate'):
        extra += [('$BTIM', '11:00:00'), ('$ETIM', '11:01:30')]
    if time_info == 'full':
        extra += [('$DATE', '05-JAN-2021'), ('$TIMESTEP', '0.01')]
    if time_info == 'nostep':
        extra += [('$DATE', '05-JAN-2021'), ('$BTIM', '11:00:00'), ('$ETIM', '11:01:30')]
    if floatdata:
        # per fluorescence channel: some negative events / some events exactly zero but none negative / all positive
        modes = [str(rng.choice(['neg', 'zeros', 'pos'])) for _ in inst['fl']]
        ev = []
        for i in range(n):
            row = []
            for j in range(D):
                v = float(cols[j][i])
                if 2 <= j < 2 + len(inst['fl']):
                    mode = modes[j - 2]
                    v = float(10 ** (4 * v / 1024.0))
                    if mode == 'neg' and rng.random() < 0.1:
                        v -= 30.0
                    elif mode == 'zeros' and rng.random() < 0.06:
                        v = 0.0
                row.append(v)
            ev.append(row)
        dt = 'D' if floatdata == 'D' else 'F'
        spec = dict(version='FCS3.0', datatype=dt, widths=[64 if dt == 'D' else 32] * D, events=ev, ranges=[262144] * D, names=names,
                    pne=['0,0'] * D, pnv=voltage or [str(400 + 10 * j) for j in range(D)], png=[None] * D, extra=extra)
    else:
        ev = [[int(cols[j][i]) for j in range(D)] for i in range(n)]
        pne = ['4,1', '4,1'] + [('4,1' if amp_log else '0,0')] * len(inst['fl']) + (['0,0'] if with_time else [])
        spec = dict(version='FCS3.0', datatype='I', widths=[16] * D, events=ev, ranges=[R] * D, names=names, pne=pne,
                    pnv=voltage or [str(400 + 10 * j) for j in range(D)], png=[None] * D, extra=extra)
    if col_perm is not None:
        # the same channels recorded in another column order than in the beads file (names, not positions, identify them)
        D_ = len(spec['names'])
        perm = [int(x) for x in col_perm(D_)]
        for k in ('names', 'pne', 'pnv', 'png', 'widths', 'ranges'):
            spec[k] = [spec[k][i] for i in perm]
        spec['events'] = [[row[i] for i in perm] for row in spec['events']]
        fl_overrides = None
    for j, ov in (fl_overrides or {}).items():
        # settings of single fluorescence channels (0 = first fluorescence channel): {'pnv': '999', 'pne': '0,0'}
        for k, v in ov.items():
            spec[k] = list(spec[k])
            spec[k][2 + j] = v
    raw, _ = fcsgen.build(spec)
    with open(path, 'wb') as f:
        f.write(raw)
    return spec


UNITS = ['', 'Channel', 'RFI', 'a.u.', 'au', 'MEF', 'rfi', 'mef', 'A.U.', 'channel', ' MEF ', 'Rfi']


SEPS = [', ', ', ', ',', ' , ', ',  ', ' ,', ',\t']


def join(rng, items):
    """A comma-separated cell in one of the spellings a user types: the documented ', ' or other blank use."""
    cell = str(SEPS[int(rng.integers(len(SEPS)))]).join(items)
    r = rng.random()
    if r < 0.15:
        cell = cell + ' '            # a stray blank at the end / start of the whole cell
    elif r < 0.3:
        cell = ' ' + cell
    elif r < 0.35:
        cell = '  ' + cell + '\t'
    return cell


def experiment(rng, base_dir, n_inst=None, n_beads=None, n_samples=None, units_pool=UNITS, float_frac=0.3,
               npop=4, fractions=(0.3, 0.5, 0.85, 1.0, 0.0, 1), nfl=None, force_float_first=False, zero_fraction_first=False, permute_columns=0.3, big_first=False, id_style='plain', blank_units_last=False):
    """Writes FCS files under base_dir and returns (instruments_df, beads_df, samples_df, info)."""
    os.makedirs(base_dir, exist_ok=True)
    n_inst = n_inst or int(rng.integers(1, 4))
    insts = [instrument(i, nfl or int(rng.integers(1, 4))) for i in range(n_inst)]
    allfl = sorted(set(ch for it in insts for ch in it['fl']))
    itab = pd.DataFrame([{'ID': it['ID'], 'Forward Scatter Channel': it['fsc'], 'Side Scatter Channel': it['ssc'],
                          'Fluorescence Channels': join(rng, it['fl']), 'Time Channel': it['time'], 'Comment': 'c%d' % i}
                         for i, it in enumerate(insts)]).set_index('ID')
    # row identifiers as users write them: plain (S0, B1) or with dots, blanks and signs (they also name the figure files)
    SID = (lambda k: 'S%d' % k) if id_style == 'plain' else (lambda k: ['IPTG_0.%d' % (5 * (k + 1)), 'strain A #%d' % k, 'S%d.fcs' % k, 'x-%d.25' % k][k % 4])
    BID = (lambda b: 'B%d' % b) if id_style == 'plain' else (lambda b: ['B2024.%d' % (b + 1), 'beads lot %d' % b][b % 2])
    n_beads = int(rng.integers(0, 3)) if n_beads is None else n_beads
    brow = []
    for b in range(n_beads):
        it = insts[int(rng.integers(n_inst))]
        fn = 'beads_%d.fcs' % b
        beads_file(rng, it, os.path.join(base_dir, fn), npop=npop)
        row = {'ID': BID(b), 'Instrument ID': it['ID'], 'File Path': fn,
               'Gate Fraction': float(rng.choice([0.3, 0.5])), 'Clustering Channels': it['fl'][0], 'Lot': 'AF%02d' % b}
        for ch in allfl:
            row[ch + ' MEF Values'] = None
        for ch in it['fl']:
            if rng.random() < 0.8:
                vals = [str(v * (1 + it['fl'].index(ch))) for v in MEF_LADDER[:npop]]
                if rng.random() < 0.3:
                    vals[0] = 'None'
                row[ch + ' MEF Values'] = join(rng, vals)
        brow.append(row)
    cols = ['ID', 'Instrument ID', 'File Path'] + [ch + ' MEF Values' for ch in allfl] + ['Gate Fraction', 'Clustering Channels', 'Lot']
    btab = pd.DataFrame(brow, columns=cols).set_index('ID')
    n_samples = int(rng.integers(1, 5)) if n_samples is None else n_samples
    srow = []
    info = {'insts': insts, 'sample_specs': {}}
    for k in range(n_samples):
        it = insts[int(rng.integers(n_inst))]
        isf = (rng.random() < float_frac) or (force_float_first and k == 0)
        blank_row = bool(blank_units_last) and k == n_samples - 1 and k > 0
        if blank_row:
            isf = False      # an integer file (saturated fluorescence events) on a row that reports no fluorescence channel at all
        fn = 'sample_%d.fcs' % k
        ti = str(rng.choice(['full', 'full', 'nodate', 'nostep', 'none']))
        wt = rng.random() < 0.7
        if k == 0 and zero_fraction_first:
            ti, wt = 'full', True           # a row that keeps no events, on a file with a time channel and a time step
        info['sample_specs'][SID(k)] = sample_file(rng, it, os.path.join(base_dir, fn), with_time=wt, time_info=ti,
                                                      n=140001 if (big_first and k == 0) else None,
                                                      floatdata=('D' if (rng.random() < 0.4 or (force_float_first == 'D' and k == 0))
                                                                 else True) if isf else False,
                                                      col_perm=(lambda D_: rng.permutation(D_)) if rng.random() < permute_columns else None)
        row = {'ID': SID(k), 'Instrument ID': it['ID'], 'Beads ID': None, 'File Path': fn,
               'Gate Fraction': 0 if (k == 0 and zero_fraction_first) else fractions[int(rng.integers(len(fractions)))],
               'Strain': 'strain %d' % k}
        for ch in allfl:
            row[ch + ' Units'] = None
        # beads of the same instrument with calibration for the channel
        cands = [r for r in brow if r['Instrument ID'] == it['ID']]
        for ch in it['fl']:
            u = str(rng.choice(units_pool))
            if u.strip().lower() == 'mef':
                ok = [r for r in cands if r.get(ch + ' MEF Values')]
                if not ok or isf:
                    u = 'RFI'
                else:
                    if row['Beads ID'] is None or row['Beads ID'] not in [r['ID'] for r in ok]:
                        if row['Beads ID'] is not None:
                            u = 'a.u.'
                        else:
                            row['Beads ID'] = ok[int(rng.integers(len(ok)))]['ID']
            row[ch + ' Units'] = u if u != '' else None
        if blank_row:
            for ch in it['fl']:
                row[ch + ' Units'] = None
            row['Beads ID'] = None
        if force_float_first and k == 0 and all(row[ch + ' Units'] is None for ch in it['fl']):
            row[it['fl'][0] + ' Units'] = 'RFI'
        srow.append(row)
    cols = ['ID', 'Instrument ID', 'Beads ID', 'File Path'] + [ch + ' Units' for ch in allfl] + ['Gate Fraction', 'Strain']
    stab = pd.DataFrame(srow, columns=cols).set_index('ID')
    # keep whole-number fractions as integer cells (a user types 1, not 1.0)
    stab['Gate Fraction'] = pd.Series([r['Gate Fraction'] for r in srow], index=stab.index, dtype=object)
    return itab, btab, stab, info


def write_input_workbook(path, itab, btab, stab):
    with pd.ExcelWriter(path, engine='openpyxl') as w:
        itab.reset_index().to_excel(w, sheet_name='Instruments', index=False)
        btab.reset_index().to_excel(w, sheet_name='Beads', index=False)
        stab.reset_index().to_excel(w, sheet_name='Samples', index=False)
