"""C07 - ranges follow the data through unit changes, so saturation gating commutes.

Monitors: contracts on to_rfi / to_mef / transform (bitwise: every event that sat at an original limit now has
exactly the value of the new limit; unconverted channels keep their limits) and a two-pipeline driver
(high_low gate before vs after conversion, RFI and RFI->MEF) using the real gate with default thresholds.
"""
import os

import numpy as np

from rv import core, zoo, monitors

ANCHORS = ['to_rfi', 'to_mef', 'transform', 'high_low']      # functions the property is anchored in: never entered => inconclusive
LEVEL = 'exploration'
LEVEL_TEXT = 'Bitwise oracle: every event that sat at an original range limit must have exactly the value of the new limit after to_rfi/to_mef/transform, and the real default saturation gate must commute with the conversions; evaluated on tens of thousands of amplifier/curve parameter draws. Exploration (numerical outcome depends on the NumPy build, recorded in evidence).'
TECHNIQUE = 'runtime contract on conversions (bitwise limit-vs-saturated-event oracle) + commutation checker of two real pipelines'
RULE = ('integer samples with events at 0, 1, R-2, R-1 in every channel x R in {2^8..2^18,1000,1023}, and (1 in 4) single/double precision samples with events on both limits, non-power-of-two gains and log amplifiers x amplifier '
        'settings x standard curves m in [0.85,1.25], b in [0,7] x channel subsets; non-trivial = a log channel or a '
        'power-law curve is involved (pow evaluation); distinct = digest(sample, parameters)'
        ' Also: requests by position counted from the last channel, samples emptied by a gate (limits still follow the parameters).')
ASSUMPTIONS = ['equality is bitwise; holds for the NumPy build in /venv (vectorised pow)']
MIN_CHECKS = {'quick': 6000, 'thorough': 150000}
REQUIRED_COUNTERS = ['chk_c07_limit_events', 'chk:commute']


def run(ctx):
    F = core.import_flowcal()
    mon = monitors.Monitors(ctx, F)
    mon.judge_limits = True
    mon.attach_transform()
    path = os.path.join(ctx.tmpdir, 'c07.fcs')
    n = 250 if ctx.tier == 'quick' else 60000
    for cid, rng in ctx.cases([('s', i) for i in range(n)]):
        mon.cid = cid
        D = int(rng.integers(2, 6))
        if cid[1] % 60 == 9:
            D = min(D, 3)
            spec = zoo.int_spec(rng, n=int(rng.choice([65537, 140001, 300001])), d=D, all_log=rng.random() < 0.6,
                                res=int(rng.choice([1000, 10000, 50000, 1024])))      # a large sample, mostly with a resolution that is not a power of two
        elif rng.random() < 0.75:
            spec = zoo.int_spec(rng, n=int(rng.integers(12, 60)), d=D, all_log=rng.random() < 0.4)
        else:
            # single / double precision samples with events sitting exactly on the limits 0 and R-1, linear gains that
            # are not powers of two and log amplifiers (the law must be evaluated as for the limits: in double precision)
            spec = zoo.float_spec(rng, n=int(rng.integers(12, 60)), d=D, negatives=rng.random() < 0.5,
                                  dt='F' if rng.random() < 0.7 else 'D')
            R = int(rng.choice([262144, 1024, 1000, 65536]))
            spec['ranges'] = [R] * D
            for j in range(D):
                spec['png'][j] = [None, '1', '10', '0.3', '3.7', '100', '2.5'][int(rng.integers(7))]
                if rng.random() < 0.35:
                    spec['pne'][j] = str(rng.choice(['4,1', '4.5,0.1', '5,0']))
                    spec['png'][j] = None
            ev = spec['events']
            for j in range(D):
                for v in (0.0, float(R - 1), float(R - 1), float(R - 2), float(R)):
                    ev[int(rng.integers(len(ev)))][j] = min(v, 262143.0) if R == 262144 else v
        s = zoo.write_and_load(F, spec, path)
        k = int(rng.integers(1, D + 1))
        pos = [int(x) for x in rng.permutation(D)[:k]]
        # by name, by position, or by position counted from the last channel
        chans = [s.channels[p] if rng.random() < 0.45 else (p if rng.random() < 0.65 else p - D) for p in pos]
        # --- to_rfi, settings from file or overridden
        at = ag = None
        if rng.random() < 0.3:
            at = [(float(rng.choice([0, 2.5, 4, 4.5, 5])), float(rng.choice([1, 0.1, 10]))) for _ in pos]
            ag = [float(rng.choice([0.5, 1, 2, 3.7])) for _ in pos]
        rfi = F.transform.to_rfi(s, chans, at, ag, None)
        # the same conversions requested as one scalar position (0 included) and as an empty request: unconverted channels
        # keep their limits and their events (judged in situ by the conversion monitor)
        if cid[1] % 3 == 0:
            core.attempt(F.transform.to_rfi, s, int(pos[0]) if rng.random() < 0.5 else 0)
            core.attempt(F.transform.to_rfi, s, [])
            ctx.counters['chk:scalar-and-empty-requests'] += 1
        # --- commutation of the default saturation gate, RFI
        gate_ch = chans if rng.random() < 0.7 else None
        m0 = F.gate.high_low(s, gate_ch, full_output=True).mask
        m1 = F.gate.high_low(rfi, gate_ch, full_output=True).mask
        ctx.counters['chk:commute'] += 1
        ctx.check(np.array_equal(m0, m1), 'commute:rfi-gate-mask-differs', cid, channels=chans,
                  n_diff=int(np.sum(m0 != m1)), pne=spec['pne'], ranges=spec['ranges'])
        # --- to_mef on RFI with increasing standard curves
        kk = int(rng.integers(1, k + 1))
        mpos = pos[:kk]
        crv = [zoo.make_curve(*p) for p in zoo.power_curves(rng, kk)]
        if spec['datatype'] in ('F', 'D') and bool(np.any(np.asarray(rfi)[:, mpos] < 0)) and rng.random() < 0.7:
            # a user's curve in the bead-model form e^(m log x + b), defined for positive values only: an event below zero
            # (outside the lower limit before the conversion) has no value after it (NaN) and is outside then too
            def positive_only(m, b):
                def sc(x):
                    with np.errstate(all='ignore'):
                        return np.exp(m * np.log(x) + b)
                sc.params = (m, b, 'positive-only')
                return sc
            crv = [positive_only(*c.params) for c in crv]
            ctx.counters['chk:commute:positive-only-curve'] += 1
        mchans = [s.channels[p] if rng.random() < 0.45 else (p if rng.random() < 0.65 else p - D) for p in mpos]
        mef = F.transform.to_mef(rfi, mchans if rng.random() < 0.7 else None, crv, mchans)
        m2 = F.gate.high_low(mef, gate_ch, full_output=True).mask
        ctx.counters['chk:commute'] += 1
        ctx.check(np.array_equal(m0, m2), 'commute:mef-gate-mask-differs', cid, channels=mchans,
                  n_diff=int(np.sum(m0 != m2)), curves=[c.params for c in crv])
        # gating first then converting gives the same events
        g_then = F.transform.to_mef(F.transform.to_rfi(F.gate.high_low(s, gate_ch), chans, at, ag, None),
                                    mchans, crv, mchans)
        then_g = F.gate.high_low(mef, gate_ch)
        ctx.counters['chk:commute'] += 1
        ctx.check(np.asarray(g_then).tobytes() == np.asarray(then_g).tobytes(), 'commute:gate-then-convert-differs',
                  cid, shapes=[list(g_then.shape), list(then_g.shape)])
        # ... and the same limits: the limits are a function of the old limits and the parameters alone, whichever events
        # are left (a gate may leave none at all)
        rr = lambda x: [None if r is None else [float(r[0]), float(r[1])] for r in x.range()]
        ctx.check(rr(g_then) == rr(then_g), 'commute:gate-then-convert-other-limits', cid, got=rr(g_then), want=rr(then_g))
        if cid[1] % 2 == 0:
            e = s[:0] if rng.random() < 0.5 else F.gate.high_low(s, high=-1.0)      # a sample without events
            with np.errstate(all='ignore'):
                oe = core.attempt(lambda: F.transform.to_mef(F.transform.to_rfi(e, chans, at, ag, None), mchans, crv, mchans))
            ctx.counters['chk:commute'] += 1
            if ctx.check(not oe.raised, 'empty-sample-conversion-raised', cid, exc=core.exc_str(oe.exc) if oe.raised else None):
                ctx.check(oe.value.shape[0] == 0 and rr(oe.value) == rr(mef), 'commute:empty-sample-other-limits', cid,
                          got=rr(oe.value), want=rr(mef))
        # --- generic transform() with a NumPy function
        m_, b_ = zoo.power_curves(rng, 1)[0]
        fx = zoo.make_curve(m_, b_)
        tr = F.transform.transform(rfi, mchans, fx)
        m3 = F.gate.high_low(tr, gate_ch, full_output=True).mask
        ctx.counters['chk:commute'] += 1
        ctx.check(np.array_equal(m0, m3), 'commute:transform-gate-mask-differs', cid, channels=mchans)
        haslog = any(not spec['pne'][p].startswith('0') for p in pos)
        ctx.case_done(class_key=('pipeline', 'log' if haslog else 'lin', max(spec['ranges']) > 65536, k, kk),
                      nontrivial=True, distinct_key=core.digest(cid),
                      sample={'ranges': spec['ranges'], 'pne': spec['pne'], 'png': spec['png'], 'rfi_channels': chans,
                              'mef_channels': mchans, 'curves': [c.params for c in crv]} if cid[1] < 3 else None)
    # the repository's own tests as a workload under the same monitors (their assertions are not the oracle)
    from rv import suite_workload
    suite_workload.run_repo_suite(ctx, mon, modules=('test_transform.py',))
    mon.detach()
