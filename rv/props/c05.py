"""C05 - the density gate keeps the densest whole bins holding the requested share.

Monitor: contract on gate.density2d (rv.monitors.oracle_density2d): bin atomicity from an independently recomputed
event->bin map, nothing outside the grid, kept >= ceil(f*n) and minimal, density order on the documented smoothed
density.  Driver: permutation invariance, nesting in f, replay with returned edges+bin mask, short==long, refusals.
"""
import os

import numpy as np

from rv import core, zoo, monitors

ANCHORS = ['density2d', 'FCSData.hist_bins']      # functions the property is anchored in: never entered => inconclusive
LEVEL = 'exploration'
LEVEL_TEXT = 'Contract on the real density2d: bin atomicity from an independently recomputed event-to-bin map, target count, minimality and density order on the documented smoothed density, plus permutation/nesting/replay metamorphic runs and refusals; also evaluated in situ inside the Excel workflow (C10). Exploration.'
TECHNIQUE = 'runtime contract on density2d (independent bin map + smoothed-density order oracle) + metamorphic driver (permute, nest, replay)'
RULE = ('event sets {gaussian blobs, mixtures, uniform, tied small-integer lattices} with/without out-of-grid events, '
        '2..N events x bins {count, explicit uneven edges, [int,array] mixtures, sample-derived linear/log/logicle} x '
        'f in {0,1,k/n,random} x sigma; non-trivial = >=20 in-grid events, 0<f<1 and >=2 occupied bins; '
        'distinct = digest(events, bins, f, sigma)'
        ' Also: per-axis sigma pairs incl. zeros, NaN/inf events and events on the outermost edges with explicit grids.')
ASSUMPTIONS = ['target count accepted as ceil of either the exact rational f*n or the float product',
               'smoothed density recomputed with scipy.ndimage.gaussian_filter as documented (sigma, constant mode, truncate 6)',
               'grids with a single bin along an axis are exercised through the short form only (contour tracer needs 2x2)']
MIN_CHECKS = {'quick': 8000, 'thorough': 200000}
REQUIRED_COUNTERS = ['chk:density2d', 'chk:metamorphic', 'chk:refusal']


def events(rng, N, kind):
    if kind == 'blob':
        X = rng.normal([300, 500], [60, 90], size=(N, 2))
    elif kind == 'mixture':
        c = rng.integers(0, 3, size=N)
        mu = np.array([[200, 200], [600, 300], [400, 800]])[c]
        X = mu + rng.normal(0, 40, size=(N, 2))
    elif kind == 'uniform':
        X = rng.uniform(0, 1000, size=(N, 2))
    else:   # heavily tied small-integer lattice
        X = rng.integers(0, int(rng.integers(3, 12)), size=(N, 2)).astype(float)
    return X


def make_bins(rng, X, kind):
    lo, hi = X.min(axis=0), X.max(axis=0)
    span = np.maximum(hi - lo, 1.0)

    def edges(j, clip):
        n = int(rng.integers(2, 30))
        a = lo[j] + (0.15 * span[j] if clip else -0.01 * span[j])
        b = hi[j] - (0.15 * span[j] if clip else -0.01 * span[j])
        if not b > a:
            a, b = lo[j] - 0.5, hi[j] + 0.5
        e = np.sort(rng.uniform(a, b, size=n + 1))
        e[0], e[-1] = a, b
        e = np.unique(e)
        if rng.random() < 0.3:
            e = np.linspace(a, b, n + 1)
        return e
    if kind == 'count':
        return int(rng.integers(2, 30))
    clip = rng.random() < 0.5
    if kind == 'edges':
        return [edges(0, clip), edges(1, clip)]
    if kind == 'mixed':
        return [int(rng.integers(2, 30)), edges(1, clip)] if rng.random() < 0.5 else [edges(0, clip), int(rng.integers(2, 30))]
    if kind == 'one-array':
        a, b = min(lo) - 1, max(hi) + 1
        return np.linspace(a, b, int(rng.integers(3, 30)))
    raise ValueError(kind)


def cp(b):
    return [x.copy() if isinstance(x, np.ndarray) else x for x in b] if isinstance(b, list) else \
        (b.copy() if isinstance(b, np.ndarray) else b)


def draw_sigma(rng):
    """"scalar or sequence of scalars" (documented): scalars incl. 0, per-axis pairs incl. one or both zero, as
    list / tuple / ndarray."""
    r = rng.random()
    if r < 0.5:
        return float(rng.choice([0.5, 1, 2, 5, 10]))
    if r < 0.58:
        return [0.0, 0, np.float64(0)][int(rng.integers(3))]
    if r < 0.65:
        return int(rng.choice([1, 2, 5]))
    pair = [float(rng.choice([0, 0, 0.5, 1, 2, 5, 10])), float(rng.choice([0, 0.5, 1, 2, 5, 10]))]
    return [list, tuple, np.array][int(rng.integers(3))](pair)


def run(ctx):
    F = core.import_flowcal()
    mon = monitors.Monitors(ctx, F)
    mon.attach_gates()
    d2 = F.gate.density2d
    path = os.path.join(ctx.tmpdir, 'c05.fcs')
    n = 500 if ctx.tier == 'quick' else 60000
    nmax = 400 if ctx.tier == 'quick' else 3000
    for cid, rng in ctx.cases([('a', i) for i in range(n)]):
        mon.cid = cid
        ekind = str(rng.choice(['blob', 'mixture', 'uniform', 'lattice']))
        N = int(rng.choice([2, 3, 5, 10])) if rng.random() < 0.15 else int(rng.integers(2, nmax + 1))
        X = events(rng, N, ekind)
        data = np.column_stack([X, np.arange(N)])        # hidden third column = event index
        bkind = str(rng.choice(['count', 'edges', 'mixed', 'one-array']))
        bins = make_bins(rng, X, bkind)
        rsp = rng.random()
        if bkind == 'edges' and N >= 6 and rsp < 0.5:
            # special values among the events (explicit grid): NaN and +/-inf lie outside every grid and are never kept;
            # an event exactly on the outermost edge is inside (closed last bin)
            # (half of these samples stay finite, so that the in-situ oracle judges them in full)
            for _ in range(int(rng.integers(1, 4)) if rsp < 0.25 else 0):
                data[int(rng.integers(N)), int(rng.integers(2))] = [np.nan, np.inf, -np.inf][int(rng.integers(3))]
            j = int(rng.integers(2))
            data[int(rng.integers(N)), j] = bins[j][-1] if rng.random() < 0.5 else bins[j][0]
            # ... and one barely beyond it (the next double, or a few parts in a million further out) is outside
            for _ in range(int(rng.integers(0, 3)) if rsp < 0.25 else int(rng.integers(1, 4))):
                j = int(rng.integers(2))
                up = rng.random() < 0.6
                e_ = float(bins[j][-1] if up else bins[j][0])
                step = [0.0, 3e-6 * max(abs(e_), 1e-3), 1e-9 * max(abs(e_), 1e-3)][int(rng.integers(3))]
                v_ = np.nextafter(e_, np.inf if up else -np.inf) + (step if up else -step)
                data[int(rng.integers(N)), j] = v_
                ctx.counters['chk:barely-outside-planted'] += 1
            ekind += '+special'
        r = rng.random()
        if r < 0.1:
            f = 0.0
        elif r < 0.2:
            f = 1.0
        elif r < 0.5:
            f = int(rng.integers(1, N + 1)) / float(N)
        else:
            f = float(rng.random())
        sigma = draw_sigma(rng)
        chans = [0, 1] if rng.random() < 0.7 else [1, 0]
        o = core.attempt(d2, data, chans, cp(bins), f, 'linear', 'linear', sigma, None, True)
        desc = dict(events=ekind, N=N, bins=bkind, f=f, sigma=sigma, channels=chans)
        if not ctx.check(not o.raised, 'density2d:valid-call-refused', cid, exc=core.exc_str(o.exc) if o.raised else None, **desc):
            continue
        out = o.value
        mask = out.mask
        # 8. short form == long form (hidden column reveals the short form's mask)
        short = d2(data, chans, cp(bins), f, 'linear', 'linear', sigma)
        ctx.counters['chk:metamorphic'] += 1
        ctx.check(np.array_equal(np.asarray(short), np.asarray(out.gated_data)) and
                  np.array_equal(np.asarray(short)[:, 2], np.nonzero(mask)[0]), 'metamorphic:short-vs-long', cid, **desc)
        # 5. permuting events permutes the mask
        perm = rng.permutation(N)
        o2 = core.attempt(d2, data[perm], chans, cp(bins), f, 'linear', 'linear', sigma, None, True)
        ctx.counters['chk:metamorphic'] += 1
        if bkind in ('edges', 'one-array') or True:
            ok = (not o2.raised) and np.array_equal(o2.value.mask, mask[perm])
            ctx.check(ok, 'metamorphic:event-order-dependence', cid, **desc)
        # 6. nesting in f (same grid: use returned edges)
        edges = [out.bin_edges[0].copy(), out.bin_edges[1].copy()]
        f2 = min(1.0, f + float(rng.random()) * (1 - f))
        o3 = core.attempt(d2, data, chans, cp(edges), f2, 'linear', 'linear', sigma, None, True)
        o1 = core.attempt(d2, data, chans, cp(edges), f, 'linear', 'linear', sigma, None, True)
        ctx.counters['chk:metamorphic'] += 1
        ok = (not o3.raised) and (not o1.raised) and not np.any(o1.value.mask & ~o3.value.mask)
        ctx.check(ok, 'metamorphic:not-monotone-in-f', cid, f2=f2, **desc)
        if not o1.raised:
            ctx.check(np.array_equal(o1.value.mask, mask), 'metamorphic:explicit-edges-differ', cid, **desc)
        # 7. replay with returned edges + bin mask reproduces the mask
        o4 = core.attempt(d2, data, chans, cp(edges), 0.123, 'linear', 'linear', sigma, out.bin_mask.copy(), True)
        ctx.counters['chk:metamorphic'] += 1
        ctx.check((not o4.raised) and np.array_equal(o4.value.mask, mask), 'metamorphic:replay-differs', cid, **desc)
        n_in = int(np.sum((X[:, chans[0]] >= edges[0][0]) & (X[:, chans[0]] <= edges[0][-1]) &
                          (X[:, chans[1]] >= edges[1][0]) & (X[:, chans[1]] <= edges[1][-1])))
        ctx.case_done(class_key=('array', ekind, bkind, 'f0' if f == 0 else 'f1' if f == 1 else 'fmid',
                                 'outliers' if n_in < N else 'all-in'),
                      nontrivial=n_in >= 20 and 0 < f < 1, distinct_key=core.digest(cid),
                      sample=dict(desc, bins_repr=repr(bins)[:200], kept=int(mask.sum()), in_grid=n_in) if cid[1] < 3 else None)
    # ---- samples with sample-derived bins ------------------------------------
    # ---- large inputs: more than 2^16 events inside the grid, different bin counts on the two axes (fast paths, flattened
    # bin indices, chunking); judged by the in-situ monitor like every other call, plus re-gating
    for cid, rng in ctx.cases([('big', i) for i in range(3 if ctx.tier == 'quick' else 30)]):
        mon.cid = cid
        N = int(rng.choice([70000, 120000, 300000]))
        X = events(rng, N, str(rng.choice(['blob', 'mixture', 'uniform'])))
        data = np.column_stack([X, np.arange(N)])
        nx, ny = [(40, 64), (64, 40), (33, 33)][cid[1] % 3]
        bins = [nx, ny] if rng.random() < 0.5 else [np.linspace(X[:, 0].min(), X[:, 0].max(), nx + 1), np.linspace(X[:, 1].min(), X[:, 1].max(), ny + 1)]
        f = float(rng.choice([0.1, 0.5, 0.9, 1.0]))
        sigma = draw_sigma(rng)
        o = core.attempt(d2, data, [0, 1], cp(bins), f, 'linear', 'linear', sigma, None, True)
        desc = dict(events='big', N=N, bins=[nx, ny], f=f, sigma=sigma)
        if ctx.check(not o.raised, 'density2d:valid-call-refused', cid, exc=core.exc_str(o.exc) if o.raised else None, **desc):
            out = o.value
            o4 = core.attempt(d2, data, [0, 1], [e.copy() for e in out.bin_edges], 0.3, 'linear', 'linear', sigma, out.bin_mask.copy(), True)
            ctx.check((not o4.raised) and np.array_equal(o4.value.mask, out.mask), 'regate:differs', cid, **desc)
        ctx.case_done(class_key=('array-big', nx == ny), nontrivial=True, distinct_key=core.digest(cid))
    ns = 40 if ctx.tier == 'quick' else 4000
    for cid, rng in ctx.cases([('s', i) for i in range(ns)]):
        mon.cid = cid
        isint = rng.random() < 0.6
        N = int(rng.integers(50, 600)) if rng.random() < 0.85 else int(rng.integers(4000, 9000))
        if isint:
            spec = zoo.int_spec(rng, n=N, d=3, res=int(rng.choice([256, 1024])))
            # clustered events
            for row in spec['events']:
                for j in range(2):
                    row[j] = int(np.clip(rng.normal(spec['ranges'][j] * 0.4, spec['ranges'][j] * 0.1), 0, spec['ranges'][j] - 1))
            s = zoo.write_and_load(F, spec, path)
            if rng.random() < 0.5:
                s = F.transform.to_rfi(s)
        else:
            s = zoo.write_and_load(F, zoo.float_spec(rng, n=N, d=3), path)
        scale = [str(rng.choice(['linear', 'log', 'logicle'])) for _ in range(2)]
        if not isint:
            scale = [x if x != 'log' else 'logicle' for x in scale]
        nb = int(rng.choice([8, 16, 33, 64])) if (rng.random() < 0.85 or not isint) else None
        bins = nb if rng.random() < 0.6 else [nb, int(rng.choice([4, 20]))]
        chans = [s.channels[0], s.channels[1]] if rng.random() < 0.5 else [0, 1]
        f = float(rng.choice([0.3, 0.65, 0.9, 1.0, rng.random()]))
        sigma = draw_sigma(rng) if rng.random() < 0.5 else float(rng.choice([1, 5, 10]))
        desc = dict(kind='int' if isint else 'float', N=N, bins=repr(bins), scale=scale, f=f, sigma=sigma)
        o = core.attempt(d2, s, chans, cp(bins) if isinstance(bins, list) else bins, f, scale[0], scale[1], sigma, None, True)
        if ctx.check(not o.raised, 'density2d:valid-call-refused', cid, exc=core.exc_str(o.exc) if o.raised else None, **desc):
            out = o.value
            # sample-derived edges are the library's hist_bins of the two channels
            sub = s[:, chans]
            b0 = nb
            b1 = bins[1] if isinstance(bins, list) else nb
            e0 = sub.hist_bins(channels=0, nbins=b0, scale=scale[0])
            e1 = sub.hist_bins(channels=1, nbins=b1, scale=scale[1])
            ctx.check(np.array_equal(out.bin_edges[0], e0) and np.array_equal(out.bin_edges[1], e1),
                      'density2d:sample-derived-edges', cid, **desc)
            # the kept set does not depend on the order of the events (also when the edges are derived from the sample)
            perm = rng.permutation(s.shape[0])
            o5 = core.attempt(d2, s[perm], chans, cp(bins) if isinstance(bins, list) else bins, f, scale[0], scale[1], sigma, None, True)
            ctx.counters['chk:metamorphic'] += 1
            ctx.check((not o5.raised) and np.array_equal(o5.value.mask, out.mask[perm]) and
                      np.array_equal(o5.value.bin_edges[0], out.bin_edges[0]) and np.array_equal(o5.value.bin_edges[1], out.bin_edges[1]),
                      'metamorphic:event-order-dependence', cid, **desc)
            o4 = core.attempt(d2, s, chans, [out.bin_edges[0].copy(), out.bin_edges[1].copy()], 0.5, scale[0], scale[1],
                              sigma, out.bin_mask.copy(), True)
            ctx.counters['chk:metamorphic'] += 1
            ctx.check((not o4.raised) and np.array_equal(o4.value.mask, out.mask), 'metamorphic:replay-differs', cid, **desc)
        ctx.case_done(class_key=('sample', 'int' if isint else 'float', tuple(scale), 'nbins-default' if nb is None else 'nbins'),
                      nontrivial=0 < f < 1, distinct_key=core.digest(cid), sample=desc if cid[1] < 2 else None)
    # ---- refusals ------------------------------------------------------------------
    for cid, rng in ctx.cases([('r', i) for i in range(30 if ctx.tier == 'quick' else 300)]):
        mon.cid = cid
        N = int(rng.integers(5, 60))
        data = np.column_stack([events(rng, N, 'blob'), np.arange(N)])
        for what, call in (
                ('f<0', lambda: d2(data, [0, 1], 8, -float(rng.random()) - 1e-9, 'linear', 'linear', 2.0)),
                ('f>1', lambda: d2(data, [0, 1], 8, 1 + float(rng.random()) + 1e-9, 'linear', 'linear', 2.0)),
                ('f>1 full', lambda: d2(data, [0, 1], 8, 1.0000001, 'linear', 'linear', 2.0, None, True)),
                ('f barely<0', lambda: d2(data, [0, 1], 8, -1e-12, 'linear', 'linear', 2.0)),
                ('f barely>1', lambda: d2(data, [0, 1], 8, float(np.nextafter(1.0, 2.0)), 'linear', 'linear', 2.0, None, True)),
                ('1 channel', lambda: d2(data, [0], 8, 0.5)),
                ('3 channels', lambda: d2(data, [0, 1, 2], 8, 0.5)),
                ('1 event', lambda: d2(data[:1], [0, 1], 8, 0.5)),
                ('0 events', lambda: d2(data[:0], [0, 1], np.linspace(0, 10, 5), 0.5))):
            o = core.attempt(call)
            ctx.counters['chk:refusal'] += 1
            if ctx.check(o.raised, 'refusal:accepted', cid, what=what):
                ctx.refusal(what + ':' + type(o.exc).__name__)
        ctx.case_done(class_key=('refusals',), nontrivial=True, distinct_key=core.digest(cid))
    # the repository's own tests as a workload under the same monitors (their assertions are not the oracle)
    from rv import suite_workload
    suite_workload.run_repo_suite(ctx, mon, modules=('test_gate.py',))
    mon.detach()
