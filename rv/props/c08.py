"""C08 - every gate returns exactly its documented predicate, applied as a mask.

Monitors: contracts on gate.start_end / high_low / ellipse (rv.monitors): mask == independently computed predicate
(ellipse: quadratic form in extended precision with an epsilon band that is excluded from the verdict),
gated == data[mask] with metadata, contour on the same ellipse.  Driver adds short==long form and refusals.
"""
import os

import numpy as np

from rv import core, zoo, monitors

ANCHORS = ['start_end', 'high_low', 'ellipse']      # functions the property is anchored in: never entered => inconclusive
LEVEL = 'exploration'
LEVEL_TEXT = "Contracts on the three gates with independently computed predicates (extended precision for the ellipse, an epsilon band excluded from the verdict, exact axis vertices that must be kept), gated == data[mask] with metadata, short == long form, refusals; also in situ in the Excel workflow and under the repository's gate tests. Exploration."
TECHNIQUE = 'runtime contracts on the three gates with independently computed predicates (extended precision for the ellipse)'
RULE = ('arrays and loaded samples (0..N events, integer and float) with values placed on and next to thresholds x '
        'channel forms x parameters (counts incl. negative, 0, N, N+1; thresholds explicit/partial/default; ellipse '
        'centre/axes/angle in [-2pi,2pi]/log with points generated on, just inside and just outside the ellipse); '
        'non-trivial = some event lies exactly on a threshold / within 1e-6 of the ellipse, or count is a boundary '
        'value; distinct = digest(data, call)'
        ' Also: NaN and infinite events, derived and RFI samples, tuple/ndarray argument forms.')
ASSUMPTIONS = ['ellipse boundary band |q-1| <= 1e-9 is excluded from the verdict (counted as ellipse_boundary_events)']
MIN_CHECKS = {'quick': 10000, 'thorough': 200000}
REQUIRED_COUNTERS = ['chk:start_end', 'chk:high_low', 'chk:ellipse', 'chk:short-vs-long', 'chk:refusal', 'chk:form']


def same_gated(a, b):
    return np.asarray(a).tobytes() == np.asarray(b).tobytes() and np.asarray(a).shape == np.asarray(b).shape \
        and type(a) is type(b) and (not hasattr(a, 'channels') or zoo.meta(a) == zoo.meta(b))


def make_data(F, rng, ctx, path, nmax, big=False):
    kind = int(rng.integers(5))
    N = int(rng.choice([0, 1, 2, 3, 5])) if rng.random() < 0.25 else int(rng.integers(0, nmax + 1))
    if big:
        # tens of thousands of events (fast paths, pre-filters and chunking engage only here)
        kind, N = int(rng.choice([0, 1, 3, 3])), int(rng.choice([60001, 150000, 300000]))
    D = int(rng.integers(2, 6))
    if kind == 4:
        # 8-bit sample (uint8 container)
        return zoo.write_and_load(F, zoo.int_spec(rng, n=N, d=D, limits=True, res=256, width=8), path), 'u8-sample'
    if kind in (0, 1):
        s = zoo.write_and_load(F, zoo.int_spec(rng, n=N, d=D, limits=True) if kind == 0 else zoo.float_spec(rng, n=N, d=D), path)
        tag = ('int-sample', 'float-sample')[kind]
        r = rng.random()
        if r < 0.15 and kind == 0:
            return F.transform.to_rfi(s), 'rfi-sample'
        if r < 0.4:
            s, dt = zoo.derive(rng, s)                          # a sample in the middle of an analysis
            return s, tag + ('-derived' if dt != 'fresh' else '')
        if r < 0.5 and s.shape[0]:
            return zoo.arith(rng, s)[0], tag + '-arith'         # values that went through arithmetic before (fractional values)
        return s, tag
    if kind == 2:
        return rng.integers(0, 1024, size=(N, D)), 'int-array'
    a = rng.normal(100, 300, size=(N, D))
    if N and rng.random() < 0.3:
        # special values among the events: NaN compares false with every threshold (dropped by high_low and the ellipse),
        # +/-inf is never strictly inside a finite or an infinite threshold
        for _ in range(int(rng.integers(1, 4))):
            a[int(rng.integers(N)), int(rng.integers(D))] = [np.nan, np.inf, -np.inf][int(rng.integers(3))]
        return a, 'float-array-special'
    return a, 'float-array'


def run(ctx):
    F = core.import_flowcal()
    mon = monitors.Monitors(ctx, F)
    mon.attach_gates()
    G = F.gate
    path = os.path.join(ctx.tmpdir, 'c08.fcs')
    n = 160 if ctx.tier == 'quick' else 24000
    nmax = 300 if ctx.tier == 'quick' else 2000
    for cid, rng in ctx.cases([('d', i) for i in range(n)]):
        mon.cid = cid
        data, kind = make_data(F, rng, ctx, path, nmax, big=(cid[1] % 53 == 5))
        N, D = data.shape
        is_s = hasattr(data, 'channels')

        def chform(pos):
            if not is_s:
                return [int(p) for p in pos]
            m = int(rng.integers(3))
            return [data.channels[p] if (m == 0 or (m == 2 and rng.random() < 0.5)) else int(p) for p in pos]
        # ---- start_end ------------------------------------------------------
        for _ in range(6):
            ns = int(rng.choice([-3, -1, 0, 1, N // 2, N - 1, N, N + 1, 250]))
            ne = int(rng.choice([-2, 0, 1, N // 3, N - ns if 0 <= ns <= N else 0, N, N + 1, 100]))
            sat = max(ns, 0) + max(ne, 0) <= N
            o = core.attempt(G.start_end, data, ns, ne, True)
            if sat:
                if ctx.check(not o.raised, 'start_end:valid-call-refused', cid, N=N, ns=ns, ne=ne,
                             exc=core.exc_str(o.exc) if o.raised else None):
                    short = G.start_end(data, ns, ne)
                    ctx.counters['chk:short-vs-long'] += 1
                    ctx.check(same_gated(short, o.value.gated_data), 'start_end:short-vs-long', cid, N=N, ns=ns, ne=ne)
            else:
                ctx.counters['chk:refusal'] += 1
                if ctx.check(o.raised, 'refusal:start_end-unsatisfiable-accepted', cid, N=N, ns=ns, ne=ne):
                    ctx.refusal('start_end:' + type(o.exc).__name__)
            ctx.case_done(class_key=('start_end', kind, 'sat' if sat else 'unsat', 'neg' if ns < 0 or ne < 0 else 'nonneg'),
                          nontrivial=max(ns, 0) + max(ne, 0) in (N, N + 1, 0) or ns < 0 or ne < 0,
                          distinct_key=core.digest(cid, 'se', ns, ne))
        # ---- high_low ---------------------------------------------------------
        for _ in range(8):
            form = int(rng.integers(4))
            if form == 0:
                ch, pos = None, list(range(D))
            elif form == 1:
                p = int(rng.integers(D))
                ch, pos = chform([p])[0], [p]
            else:
                k = int(rng.integers(1, D + 1))
                pos = [int(x) for x in rng.permutation(D)[:k]]
                ch = chform(pos)
            vals = np.asarray(data)[:, pos].astype(float)

            def pick_thr():
                r = rng.random()
                if r < 0.35:
                    return None
                if vals.size and r < 0.7:
                    # a value that occurs in the data (events exactly on the threshold)
                    if rng.random() < 0.5 or len(pos) == 1:
                        return float(vals[int(rng.integers(vals.shape[0])), int(rng.integers(len(pos)))])
                    return [float(vals[int(rng.integers(vals.shape[0])), j]) for j in range(len(pos))]
                return float(rng.normal(500, 400))
            hi, lo = pick_thr(), pick_thr()
            o = core.attempt(G.high_low, data, ch, hi, lo, True)
            if ctx.check(not o.raised, 'high_low:valid-call-refused', cid, kind=kind, channels=ch, high=hi, low=lo,
                         exc=core.exc_str(o.exc) if o.raised else None):
                short = G.high_low(data, ch, hi, lo)
                ctx.counters['chk:short-vs-long'] += 1
                ctx.check(same_gated(short, o.value.gated_data), 'high_low:short-vs-long', cid, channels=ch)
            if not o.raised and (isinstance(ch, list) or isinstance(hi, list) or isinstance(lo, list)) and rng.random() < 0.6:
                # the same call with list arguments in another legal form (tuple / ndarray / NumPy scalars): a refused
                # form is observed only; an accepted form is judged by the in-situ monitor and must give the same mask
                fname, fch = core.pick_form(rng, ch) if isinstance(ch, list) else ('same', ch)
                conv = [tuple, np.array, list][int(rng.integers(3))]
                fhi = conv(hi) if isinstance(hi, list) else (np.float64(hi) if hi is not None and rng.random() < 0.5 else hi)
                flo = conv(lo) if isinstance(lo, list) else (np.float64(lo) if lo is not None and rng.random() < 0.5 else lo)
                o2 = core.attempt(G.high_low, data, fch, fhi, flo, True)
                ctx.counters['chk:form'] += 1
                if o2.raised:
                    ctx.note('form-refused:high_low:' + fname + '/' + conv.__name__)
                else:
                    ctx.check(np.array_equal(o2.value.mask, o.value.mask), 'form:high_low-mask-depends-on-argument-form', cid,
                              form=[fname, conv.__name__], channels=ch, high=hi, low=lo)
            on_thr = vals.size > 0 and any(t is not None and np.any(vals == np.asarray(t)) for t in (hi, lo))
            ctx.case_done(class_key=('high_low', kind, ('all', 'scalar', 'list', 'list')[form],
                                     'hi-' + ('def' if hi is None else 'exp'), 'lo-' + ('def' if lo is None else 'exp')),
                          nontrivial=bool(on_thr) or (is_s and hi is None and kind == 'int-sample'),
                          distinct_key=core.digest(cid, 'hl', ch, hi, lo),
                          sample={'gate': 'high_low', 'kind': kind, 'channels': ch, 'high': hi, 'low': lo, 'N': N}
                          if cid[1] < 2 else None)
        # ---- ellipse ----------------------------------------------------------
        for _ in range(6):
            pos = [int(x) for x in rng.permutation(D)[:2]]
            ch = chform(pos)
            log = bool(rng.random() < 0.4)
            X = np.asarray(data)[:, pos].astype(float)
            if log:
                center = [float(rng.uniform(0.5, 3)), float(rng.uniform(0.5, 3))]
                a, b = float(rng.uniform(0.1, 1.5)), float(rng.uniform(0.1, 1.5))
            else:
                center = [float(rng.normal(300, 200)), float(rng.normal(300, 200))]
                a, b = float(rng.uniform(5, 600)), float(rng.uniform(5, 600))
            theta = float(rng.uniform(-2 * np.pi, 2 * np.pi)) if rng.random() < 0.8 else float(rng.choice([0, np.pi / 2, -np.pi]))
            # plant points on / just inside / just outside the ellipse into a float copy (arrays only)
            d2 = data
            planted = 0
            if not is_s and N >= 6 and data.dtype.kind == 'f':
                d2 = np.array(data)
                t = rng.uniform(0, 2 * np.pi, size=6)
                sc = np.array([1.0, 1 - 1e-6, 1 + 1e-6, 1 - 1e-12, 1 + 1e-12, 1.0])
                px, py = sc * a * np.cos(t), sc * b * np.sin(t)
                c, s = np.cos(theta), np.sin(theta)
                wx, wy = c * px - s * py + center[0], s * px + c * py + center[1]
                if log:
                    wx, wy = 10 ** wx, 10 ** wy
                d2[:6, pos[0]], d2[:6, pos[1]] = wx, wy
                planted = 6
            fin_rows = np.nonzero(np.all(np.isfinite(X), axis=1))[0] if N else np.array([], dtype=int)
            if len(fin_rows) >= 1 and rng.random() < 0.3:
                # an event exactly on an axis vertex (all arithmetic exact): must be kept
                i = int(fin_rows[int(rng.integers(len(fin_rows)))])
                log, theta, planted = False, 0, max(planted, 1)
                a, b = float(rng.integers(1, 60)), float(rng.integers(1, 60))
                xi, yi = float(X[i, 0]), float(X[i, 1])
                center = [xi - a, yi] if rng.random() < 0.5 else [xi, yi + b]
                if (center[0] + (xi - center[0]) != xi) or (center[1] + (yi - center[1]) != yi):
                    center = [float(round(xi)) - a, float(round(yi))]
            elif len(fin_rows) >= 1 and rng.random() < 0.4:
                # an existing event placed just inside / just outside the ellipse through the choice of the centre
                i = int(fin_rows[int(rng.integers(len(fin_rows)))])
                xi, yi = float(X[i, 0]), float(X[i, 1])
                if not log or (xi > 0 and yi > 0):
                    lx, ly = (np.log10(xi), np.log10(yi)) if log else (xi, yi)
                    delta = float(rng.choice([1e-3, 1e-4, 1e-6, -1e-4, -1e-6]))
                    theta = 0 if rng.random() < 0.5 else theta
                    c, s_ = np.cos(theta), np.sin(theta)
                    r = a * (1 - delta)
                    center = [lx - r * c, ly - r * s_]
                    planted = max(planted, 1)
            o = core.attempt(G.ellipse, d2, ch, center, a, b, theta, log, True)
            if ctx.check(not o.raised, 'ellipse:valid-call-refused', cid, kind=kind, channels=ch,
                         exc=core.exc_str(o.exc) if o.raised else None):
                with np.errstate(all='ignore'):
                    short = G.ellipse(d2, ch, center, a, b, theta, log)
                ctx.counters['chk:short-vs-long'] += 1
                ctx.check(same_gated(short, o.value.gated_data), 'ellipse:short-vs-long', cid, channels=ch)
            if not o.raised and rng.random() < 0.6:
                fname, fch = core.pick_form(rng, ch)
                conv = [tuple, np.array, (lambda c: np.array(c, dtype=np.float32).astype(np.float64).tolist())][int(rng.integers(3))]
                fcenter = conv(center)
                exact = np.array_equal(np.asarray(fcenter, dtype=float), np.asarray(center, dtype=float))
                fa = np.float64(a) if rng.random() < 0.5 else a
                fth = np.float64(theta) if rng.random() < 0.5 else theta
                with np.errstate(all='ignore'):
                    o2 = core.attempt(G.ellipse, d2, fch, fcenter, fa, b, fth, log, True)
                ctx.counters['chk:form'] += 1
                if o2.raised:
                    ctx.note('form-refused:ellipse:' + fname)
                elif exact:
                    ctx.check(np.array_equal(o2.value.mask, o.value.mask), 'form:ellipse-mask-depends-on-argument-form', cid,
                              form=fname, channels=ch, center=center)
            ctx.case_done(class_key=('ellipse', kind, 'log' if log else 'lin', 'planted' if planted else 'free'),
                          nontrivial=planted > 0 or N > 10, distinct_key=core.digest(cid, 'el', ch, center, a, b, theta, log),
                          sample={'gate': 'ellipse', 'center': center, 'a': a, 'b': b, 'theta': theta, 'log': log}
                          if cid[1] < 1 else None)
        # wrong number of channels
        for bad in ([0], [0, 1, 0][:3] if D >= 2 else [0], []):
            o = core.attempt(G.ellipse, data, bad, [1, 1], 2, 2)
            ctx.counters['chk:refusal'] += 1
            if ctx.check(o.raised, 'refusal:ellipse-channel-count-accepted', cid, channels=bad):
                ctx.refusal('ellipse-channels:' + type(o.exc).__name__)
        # ---- history: the caller edits its own container in place between two identical gate calls (each call is judged in
        # situ against the predicate, on the values the container holds at that moment)
        if N >= 2 and D >= 2 and rng.random() < 0.5:
            e2 = data.copy()
            chh = chform([0, 1])
            fin_ = np.asarray(e2)[:, :2].astype(float)
            fin_ = fin_[np.all(np.isfinite(fin_), axis=1)]
            if not len(fin_):
                continue
            lim = float(np.median(fin_[:, 0]))
            cen = [float(np.mean(fin_[:, j])) for j in (0, 1)]
            calls = [lambda: G.high_low(e2, chh, lim + 1.0, None, True), lambda: G.start_end(e2, 1, 0, True),
                     lambda: G.ellipse(e2, chh, cen, 50.0, 30.0, 0.3, False, True)]
            call_ = calls[int(rng.integers(len(calls)))]
            with np.errstate(all='ignore'):
                o1 = core.attempt(call_)
                etag = zoo.edit_in_place(rng, e2)
                o2 = core.attempt(call_)
                saved, e2 = e2, e2.copy()
                o3 = core.attempt(call_)
                e2 = saved
            ctx.counters['chk:history:edit-in-place'] += 1
            if not o2.raised and not o3.raised:
                ctx.check(np.array_equal(o2.value.mask, o3.value.mask), 'history:answer-of-earlier-values', cid, edit=etag, kind=kind)
    # the repository's own tests as a workload under the same monitors (their assertions are not the oracle)
    from rv import suite_workload
    suite_workload.run_repo_suite(ctx, mon, modules=('test_gate.py',))
    mon.detach()
