"""C16 - truncated or inconsistent FCS files fail loudly instead of yielding other data.

Fault enumeration: for generated files of the C01 lattice, truncation at EVERY
byte offset, and single-field corruptions of $TOT, $PAR, each $PnB, HEADER and
TEXT offsets.  Oracle: the outcome is an exception, or events+shape identical to
the intact file with keywords identical (a strict subset of the intact pairs is
accepted only when the damage lies inside the TEXT extent itself, which no
reader can detect).
"""
import os

import numpy as np

from rv import core, fcsgen, layouts, zoo

ANCHORS = ['read_fcs_data_segment', 'read_fcs_header_segment', 'FCSFile.__init__']      # functions the property is anchored in: never entered => inconclusive
LEVEL = 'fault_enumeration'
LEVEL_TEXT = 'Fault enumeration: truncation at every byte offset of files from the C01 lattice and single-field corruptions of $TOT/$PAR/$PnB/HEADER/TEXT offsets; the outcome must be an exception or the intact events and keywords (TEXT-extent damage judged against the C14 reference). Exhaustive over truncation points per file.'
TECHNIQUE = 'fault enumeration (every truncation point, single-field corruptions) with an intact-or-raises oracle'
RULE = ('files from the C01 layout lattice (<= ~1.5 kB); every truncation length 0..len-1 of each file '
        '(exhaustive per file) + single-field corruptions {$TOT,$PAR,$PnB,HEADER text/data offsets,'
        '$BEGINDATA/$ENDDATA} x {-1,+1,smaller,larger}; non-trivial = file has >=2 events; distinct = '
        '(file digest, fault)'
        ' Also: an 8-byte CRC tail after the last segment (60% of files) and files with a second data set appended ($NEXTDATA), read by path and by handle at either position.')
ASSUMPTIONS = ['segment order HEADER,TEXT,[supplemental TEXT],DATA,[padding]; ANALYSIS-after-DATA not judged',
               'a cut or TEXT-extent corruption that removes whole trailing optional keyword pairs is undetectable '
               'by any reader and accepted if the remaining pairs are unchanged',
               '$PAR corruption of a zero-event file is observed, not judged']
MIN_CHECKS = {'quick': 15000, 'thorough': 300000}
EXHAUSTIVE = {'quick': True, 'thorough': True}
TIMEOUT_S = {'quick': 900, 'thorough': 7200}


def load(FlowCal, path, both):
    outs = [('FCSFile', core.attempt(FlowCal.io.FCSFile, path))]
    if both:
        outs.append(('FCSData', core.attempt(FlowCal.io.FCSData, path)))
    return outs


def written_text(raw):
    """Keywords as the (damaged) bytes spell them, by the independent C14 tokenizer.
    Returns ('error', None) when they cannot be split into pairs."""
    from rv.refmodels import textseg
    try:
        version = raw[:10].decode('latin-1').rstrip()
        tb, te = int(raw[10:18]), int(raw[18:26])
    except ValueError:
        return 'error', None
    seg = raw[tb:te + 1].decode('latin-1')
    if not seg:
        return 'ok', {}
    delim = seg[0]
    cls, d = textseg.parse(seg, delim, False)
    if cls == 'error':
        return cls, None
    if version in ('FCS3.0', 'FCS3.1'):
        try:
            sb, se = int(d['$BEGINSTEXT']), int(d['$ENDSTEXT'])
        except (KeyError, ValueError):
            return 'error', None
        if sb and se:
            c2, d2 = textseg.parse(raw[sb:se + 1].decode('latin-1'), delim, True)
            if c2 == 'error':
                return 'error', None
            d = dict(d, **d2)
    return 'ok', d


def judge(ctx, cid, where, o, intact_arr, intact_text, text_damaged, fault, desc):
    """o: Outcome of loading the damaged file."""
    if o.raised:
        ctx.refusal(type(o.exc).__name__)
        ctx.counters['checks'] += 1
        ctx.counters['chk:fails-loudly'] += 1
        return 'raised'
    v = o.value
    arr = np.asarray(v.data if where == 'FCSFile' else v)
    same_shape = tuple(arr.shape) == tuple(intact_arr.shape)
    same_vals = same_shape and arr.tobytes() == intact_arr.astype(arr.dtype).tobytes() \
        and arr.dtype.kind == intact_arr.dtype.kind
    ctx.check(same_shape, 'damaged-file-other-shape', cid, where=where, fault=fault,
              got=list(arr.shape), want=list(intact_arr.shape), spec=desc)
    if same_shape:
        ctx.check(same_vals, 'damaged-file-other-values', cid, where=where, fault=fault, spec=desc)
    text = dict(v.text)
    if isinstance(text_damaged, bytes):
        # damage inside the TEXT extent: the reader must return what the damaged bytes spell (or have raised)
        cls, want = written_text(text_damaged)
        ok = (text == intact_text) or (cls != 'error' and text == want)
    elif isinstance(text_damaged, dict):
        ok = text == text_damaged
    else:
        ok = text == intact_text
    ctx.check(ok, 'damaged-file-other-keywords', cid, where=where, fault=fault,
              diff={k: (text.get(k), intact_text.get(k)) for k in set(text) | set(intact_text)
                    if text.get(k) != intact_text.get(k)}, spec=desc)
    return 'identical' if (same_vals and ok) else 'different'


def run(ctx):
    FlowCal = core.import_flowcal()
    path = os.path.join(ctx.tmpdir, 'c16.fcs')
    cells = list(layouts.lattice())
    # quick: a spread of lattice cells; thorough: every cell
    if ctx.tier == 'quick':
        sel = [i for i in range(len(cells)) if i % 18 == (ctx.seed % 18)]
    else:
        sel = list(range(len(cells))) + [len(cells) + i for i in range(2 * len(cells))]
    for cid, rng in ctx.cases([('file', i) for i in sel]):
        cell = cells[cid[1] % len(cells)]
        spec = layouts.make_spec(rng, cell, max_n=6, max_d=4)
        if len(spec['events']) == 0 and rng.random() < 0.7:
            spec = layouts.make_spec(rng, cell, max_n=6, max_d=4, n=int(rng.integers(1, 6)))
        spec.pop('key_order', None)
        spec.pop('rng', None)
        if cell[0] != 'FCS2.0' and rng.random() < 0.3:
            spec['stext'] = [('SUPP1', 'x'), ('SUPP2', 'y' + spec['delim'] + 'z')]
            if rng.random() < 0.4:
                spec['stext_position'] = 'before_text'
        if rng.random() < 0.6:
            spec['pad_tail'] = 8          # the usual 8-byte CRC field after the last segment (bytes exist beyond DATA)
        raw, lay = fcsgen.build(spec)
        desc = layouts.describe(spec)
        with open(path, 'wb') as fh:
            fh.write(raw)
        o = core.attempt(FlowCal.io.FCSFile, path)
        if not ctx.check(not o.raised, 'intact-file-refused', cid, exc=core.exc_str(o.exc) if o.raised else None,
                         spec=desc):
            continue
        intact_arr = np.array(o.value.data)
        intact_text = dict(o.value.text)
        exp = fcsgen.expected_matrix(spec)
        if spec['datatype'] == 'I':
            ctx.check(intact_arr.tolist() == exp, 'intact-values', cid, spec=desc)
        text_end = lay['stext'][1] if spec.get('stext') else lay['text_end']
        # ---- truncation at every byte offset (longest first, in place) -----
        n_id = n_raise = 0
        for cut in range(len(raw) - 1, -1, -1):
            os.truncate(path, cut)
            both = (cut % 5 == 0)
            for where, oo in load(FlowCal, path, both):
                r = judge(ctx, cid, where, oo, intact_arr, intact_text, raw[:cut] if cut <= text_end else False,
                          ('truncate', cut), desc)
                n_id += r == 'identical'
                n_raise += r == 'raised'
            ctx.case_done(class_key=None, nontrivial=len(spec['events']) >= 2,
                          distinct_key=None)
        ctx.classes[str(('truncate',) + cell[:2] + cell[4:6])] += len(raw)
        ctx.note('truncations_identical', n_id)
        ctx.note('truncations_raised', n_raise)
        # ---- single-field corruptions --------------------------------------
        D, N = len(spec['widths']), len(spec['events'])
        faults = []
        for delta in (-1, 1, -max(1, N // 2), N + 3, 10 * N + 7):
            faults.append(('$TOT', {'tot_override': max(0, N + delta)}))
        for newpar in (D - 1, D + 1, 1, 2 * D):
            if newpar >= 1 and newpar != D:
                faults.append(('$PAR', {'par_override': newpar}))
        for j in range(D):
            w = spec['widths'][j]
            alts = [w - 8, w + 8, 8, 64] if spec['datatype'] == 'I' else [w // 2, w * 2 if w < 64 else 16]
            for nw in alts:
                if 8 <= nw <= 64 and nw != w:
                    faults.append(('$P%dB' % (j + 1), {'override': {'$P%dB' % (j + 1): str(nw)}}))
        for fld in ('data_begin', 'data_end', 'text_begin', 'text_end'):
            base = lay[fld]
            for delta in (-1, 1, -7, 9, -(base // 2), lay['file_len']):
                nv = base + delta
                if nv < 0 or nv > 99999999:
                    continue
                faults.append((fld, {'header_field': (fld, nv)}))
        if cell[0] != 'FCS2.0' and spec['offsets'] == 'header' and spec.get('text_offsets', 'same') == 'same':
            # one HEADER DATA offset zeroed (the other moved by a byte): the pair in TEXT, when it is there, is the only
            # complete declaration; no reader may combine half of one declaration with half of the other
            for d_ in (-1, 1, 2):
                faults.append(('data_begin+end0', {'header_fields': {'data_begin': lay['data_begin'] + d_, 'data_end': 0}}))
                faults.append(('data_end+begin0', {'header_fields': {'data_begin': 0, 'data_end': lay['data_end'] + d_}}))
            faults.append(('data_end0', {'header_fields': {'data_end': 0}}))
            faults.append(('data_begin0', {'header_fields': {'data_begin': 0}}))
        nfault = 0
        for name, change in faults:
            sp = dict(spec)
            text_damaged = False
            data_bytes = fcsgen.pack_data(spec['events'], spec['widths'], spec['datatype'], spec['byteord'])
            sp['data_bytes'] = data_bytes
            if 'override' in change:
                sp['override'] = dict(spec.get('override') or {}, **change['override'])
            if 'tot_override' in change:
                sp['tot_override'] = change['tot_override']
            if 'par_override' in change:
                sp['par_override'] = change['par_override']
                if N == 0:
                    ctx.note('zero-event $PAR corruption (not judged)')
                    continue
            if 'header_fields' in change:
                sp['header_override'] = dict(change['header_fields'])
            if 'header_field' in change:
                fld, nv = change['header_field']
                if fld.startswith('data') and spec['offsets'] == 'text':
                    key = '$BEGINDATA' if fld == 'data_begin' else '$ENDDATA'
                    sp['override'] = {key: str(nv).rjust(12, '0')}
                else:
                    if fld.startswith('data') and spec['offsets'] != 'header':
                        continue
                    sp['header_override'] = {fld: nv}
                if fld.startswith('text'):
                    text_damaged = True
            try:
                raw2, lay2 = fcsgen.build(sp)
            except AssertionError:
                continue
            if raw2 == raw:
                continue
            # a fault after which the declared DATA extent again matches the declared size under
            # the tolerated conventions (extent == size or size+1) yields a self-consistent file
            # that merely describes other data; no reader can tell -> not judged.
            Dp = sp.get('par_override', D)
            wp = [int((sp.get('override') or {}).get('$P%dB' % (j + 1), spec['widths'][j])) for j in range(min(Dp, D))]
            Sp = sp.get('tot_override', N) * sum(w // 8 for w in wp)
            hb = (sp.get('header_override') or {})
            b2 = hb.get('data_begin', lay2['data_begin'])
            e2 = hb.get('data_end', lay2['data_end'])
            if spec['offsets'] == 'text':
                ov = sp.get('override') or {}
                b2 = int(ov.get('$BEGINDATA', b2))
                e2 = int(ov.get('$ENDDATA', e2))
            S0 = N * sum(w // 8 for w in spec['widths'])
            consistent = Dp <= D and (e2 - b2 + 1) in (Sp, Sp + 1)
            same_bytes = (b2 == lay['data_begin'] and Sp == S0 and Dp == D)
            if not name.startswith('text') and consistent and not same_bytes:
                ctx.note('fault leaves a self-consistent file under the one-past convention (not judged)')
                continue
            # keywords as written in the damaged file
            want_text = dict(intact_text)
            if 'tot_override' in sp:
                want_text['$TOT'] = str(sp['tot_override'])
            if 'par_override' in sp:
                want_text['$PAR'] = str(sp['par_override'])
            for k, v in (sp.get('override') or {}).items():
                want_text[k] = v
            with open(path, 'wb') as fh:
                fh.write(raw2)
            for where, oo in load(FlowCal, path, nfault % 3 == 0):
                judge(ctx, cid, where, oo, intact_arr, intact_text if text_damaged else want_text,
                      raw2 if text_damaged else want_text, (name, change), desc)
            nfault += 1
            ctx.case_done(class_key=('corrupt', name.lstrip('$')[:2] if name.startswith('$P') and name != '$PAR' else name,
                                     spec['datatype'], cell[4]),
                          nontrivial=N >= 2, distinct_key=core.digest(raw2),
                          sample={'fault': name, 'change': change, 'file': desc} if nfault == 3 and cid[1] % 5 == 0 else None)
    # ---- large files (DATA of several MiB: buffered / chunked readers engage only here), cut inside DATA ---------------------
    for cid, rng in ctx.cases([('bigcut', i) for i in range(2 if ctx.tier == 'quick' else 20)]):
        kind = ['F', 'I', 'I-mixed', 'D'][cid[1] % 4]
        N, D = int(rng.choice([70000, 120000])), 8
        if kind in ('F', 'D'):
            spec = zoo.float_spec(rng, n=N, d=D, dt=kind)
        else:
            spec = zoo.int_spec(rng, n=N, d=D, res=int(rng.choice([1024, 4096, 65536])), width=16)
            if kind == 'I-mixed':
                spec['widths'] = [16, 32, 16, 16, 32, 16, 16, 32]
        raw, lay = fcsgen.build(spec)
        with open(path, 'wb') as fh:
            fh.write(raw)
        o = core.attempt(FlowCal.io.FCSFile, path)
        if not ctx.check(not o.raised, 'intact-file-refused', cid, exc=core.exc_str(o.exc) if o.raised else None, spec=dict(kind=kind, N=N)):
            continue
        intact_arr, intact_text = np.array(o.value.data), dict(o.value.text)
        span = lay['data_end'] - lay['data_begin']
        for frac in (0.999, 0.75, 0.4, 0.0001):
            cut = lay['data_begin'] + int(span * frac)
            os.truncate(path, cut)
            for where, oo in load(FlowCal, path, True):
                judge(ctx, cid, where, oo, intact_arr, intact_text, False, ('truncate-big', frac), dict(kind=kind, N=N))
            ctx.case_done(class_key=('truncate-big', kind), nontrivial=True, distinct_key=core.digest(cid, frac))
    # ---- a keyword the reader relies on is absent, and the file is cut short at every byte -----------------------------------
    # (whatever a reader does about the absent keyword - refuse, or fall back on the bytes present - a file cut short returns
    # exactly what was written in full, or raises)
    KW = ['$TOT', '$TOT', '$TOT', '$PAR', '$DATATYPE', '$BYTEORD', '$MODE', '$NEXTDATA', '$P1B', '$P1R', '$P1N', '$P1E', '$P2B']
    for cid, rng in ctx.cases([('absent', i) for i in range(13 if ctx.tier == 'quick' else 390)]):
        kw = KW[cid[1] % len(KW)]
        cell = cells[int(rng.integers(len(cells)))]
        spec = layouts.make_spec(rng, cell, max_n=6, max_d=4, n=int(rng.integers(2, 7)))
        spec.pop('key_order', None)
        spec.pop('rng', None)
        if rng.random() < 0.5:
            spec['pad_tail'] = 8
        raw, lay = fcsgen.build(spec)
        with open(path, 'wb') as fh:
            fh.write(raw)
        o = core.attempt(FlowCal.io.FCSFile, path)
        if o.raised:
            continue
        intact_arr, intact_text = np.array(o.value.data), dict(o.value.text)
        if kw not in intact_text:
            continue
        sp = dict(spec)
        sp['data_bytes'] = fcsgen.pack_data(spec['events'], spec['widths'], spec['datatype'], spec['byteord'])
        sp['override'] = dict(spec.get('override') or {}, **{kw: None})
        try:
            raw2, lay2 = fcsgen.build(sp)
        except AssertionError:
            continue
        want_text = {k: v for k, v in intact_text.items() if k != kw}
        # (offsets recorded in TEXT move with the shorter TEXT segment)
        cls_, wt_ = written_text(raw2)
        if cls_ != 'ok':
            continue
        want_text = wt_
        desc = dict(layouts.describe(spec), absent=kw)
        with open(path, 'wb') as fh:
            fh.write(raw2)
        n_loaded = 0
        for cut in range(len(raw2), -1, -1):
            os.truncate(path, cut)
            for where, oo in load(FlowCal, path, cut % 5 == 0):
                r = judge(ctx, cid, where, oo, intact_arr, want_text, raw2[:cut] if cut <= lay2['text_end'] else want_text,
                          ('absent-keyword+truncate', kw, cut), desc)
                n_loaded += r != 'raised'
            ctx.counters['chk:absent-keyword'] += 1
        ctx.note('absent %s: loads among all cuts' % kw, n_loaded)
        ctx.case_done(class_key=('absent', kw, spec['datatype']), nontrivial=True, distinct_key=core.digest(raw2))
    # ---- a second data set appended to the file ($NEXTDATA) ----------------------------------------------------------
    # Whatever the position of an open handle, and wherever the file is cut inside the SECOND data set, a load returns one
    # data set's events together with that same data set's keywords (the first one for this reader), or raises: never the
    # keywords of one paired with the events of the other.
    for cid, rng in ctx.cases([('two', i) for i in range(6 if ctx.tier == 'quick' else 300)]):
        D = int(rng.integers(2, 4))
        spA = zoo.int_spec(rng, n=int(rng.integers(4, 10)), d=D, version='FCS3.0')
        spB = zoo.int_spec(rng, n=len(spA['events']), d=D, version='FCS3.0')       # same shape: a mix-up is not caught by a size check
        spB['offsets'] = 'text' if rng.random() < 0.6 else 'header'
        spA['offsets'] = 'text' if rng.random() < 0.4 else 'header'
        spB['extra'] = list(spB.get('extra', [])) + [('$SMNO', 'second data set')]
        try:
            spA['override'] = dict(spA.get('override') or {}, **{'$NEXTDATA': '0' * 8})
            r0, _ = fcsgen.build(spA)
            spA['override']['$NEXTDATA'] = str(len(r0)).rjust(8, '0')
            rA, layA = fcsgen.build(spA)
            rB, layB = fcsgen.build(spB)
        except AssertionError:
            continue
        if len(rA) != len(r0):
            continue
        refs = []
        for rr in (rA, rB):
            with open(path, 'wb') as fh:
                fh.write(rr)
            oo = core.attempt(FlowCal.io.FCSFile, path)
            refs.append(None if oo.raised else (np.array(oo.value.data), dict(oo.value.text)))
        if refs[0] is None or refs[1] is None:
            ctx.note('two data sets: single data set refused (harness)')
            continue
        cuts = [None] + [len(rA) + layB['data_begin'] + int(x) for x in rng.integers(0, max(1, layB['data_end'] - layB['data_begin']), size=4)]
        for cut in cuts:
            whole = rA + rB
            with open(path, 'wb') as fh:
                fh.write(whole if cut is None else whole[:cut])
            loads = [('path', core.attempt(FlowCal.io.FCSFile, path))]
            with open(path, 'rb') as fh:
                first = core.attempt(FlowCal.io.FCSFile, fh)
                loads.append(('handle', first))
                fh.seek(len(rA))
                loads.append(('handle at $NEXTDATA', core.attempt(FlowCal.io.FCSFile, fh)))
                fh.seek(len(rA))
                o3 = core.attempt(FlowCal.io.FCSData, fh)
                loads.append(('handle at $NEXTDATA (FCSData)', o3))
            for where, oo in loads:
                ctx.counters['chk:two-datasets'] += 1
                if oo.raised:
                    continue
                v = oo.value
                arr = np.array(v.data) if hasattr(v, 'data') and not hasattr(v, 'channels') else np.array(np.asarray(v))
                txt = dict(v.text)
                def same(ref):
                    return arr.shape == ref[0].shape and arr.tolist() == ref[0].tolist() and txt == ref[1]
                ok = same(refs[0]) or (cut is None and same(refs[1]))
                ctx.check(ok, 'second-data-set:keywords-and-events-of-different-data-sets', cid, where=where, cut=cut,
                          events_of=('first' if arr.tolist() == refs[0][0].tolist() else 'second' if arr.tolist() == refs[1][0].tolist() else 'neither'),
                          keywords_of=('first' if txt == refs[0][1] else 'second' if txt == refs[1][1] else 'neither'))
        ctx.case_done(class_key=('two-datasets', spA['offsets'], spB['offsets']), nontrivial=True, distinct_key=core.digest(rA, rB))
    # ---- the empty file --------------------------------------------------------
    if ctx.shard == 0 or ctx.only_case is not None:
        open(path, 'wb').close()
        for where, ctor in (('FCSFile', FlowCal.io.FCSFile), ('FCSData', FlowCal.io.FCSData)):
            oo = core.attempt(ctor, path)
            ctx.check(oo.raised, 'empty-file-loaded', ('empty',), where=where)
        ctx.case_done(class_key=('empty-file',), nontrivial=False)
