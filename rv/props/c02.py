"""C02 - bead calibration end to end yields the true RFI-to-MEF conversion.

Monitor: contract on mef.get_transform_fxn(..., full_output=True) over synthetic bead samples whose generating law and
generating partition are known: partition == truth, statistics == statistics of the true subpopulations in brightness
order, pairing skips exactly the unknown and at-limit populations, fit == fit to the true statistics (bit for bit),
transform within 10% of exp(b)*x^m over the calibrated span, invariance under event permutation, reproducibility.
Known finding (mechanism-keyed, input-only predicate): equal-count quantile seeding of the mixture.
"""
import os

import itertools

import numpy as np

from rv import core, zoo, monitors

ANCHORS = ['clustering_gmm', 'get_transform_fxn', 'selection_std', 'fit_beads_autofluorescence']      # functions the property is anchored in: never entered => inconclusive
LEVEL = 'exploration'
LEVEL_TEXT = 'Ground-truth oracle on synthetic bead samples (known partition and law) for the whole calibration workflow in two containers, plus permutation/reseed metamorphic runs and multi-channel reordered conversion; failures inside three listed mechanisms (equal-count seeding of the mixture, optimiser termination scatter of the fit, strays of a piled-up subpopulation) are known findings classified by mechanism predicates, everything outside them must hold strictly. Exploration: reach comes from sample diversity, not enumeration.'
TECHNIQUE = 'runtime contract on the calibration workflow with ground-truth oracle (known partition and law) + permutation/reseed metamorphic runs'
RULE = ('synthetic bead samples: 6..8 subpopulations, adjacent brightness ratio in [2.5,4], CV 2..5%, 200..800 events '
        'each (balanced: one size +-10%; unbalanced: independent sizes), random event order, slope in [0.9,1.2], intercept '
        'in [1,5], autofluorescence < 1/3 dimmest non-blank, 1..3 channels with independent laws, optional blank, optional '
        'saturated brightest/dimmest, optional unknown (None/NaN) entries x clustering channel subsets x statistic '
        '(median/mean) x seeds; non-trivial = every case; distinct = digest(events)'
        ' Also: selection on a log axis or with an explicit lower threshold, populations entirely on the lower limit, requests naming a channel twice, target samples whose columns are arranged unlike the beads file, the short return form with progress messages.')
ASSUMPTIONS = ['bead files holding RFI directly ($DATATYPE=F) or 10-bit log-amplified integers converted by the real to_rfi; subpopulation statistics evaluated in the sample dtype',
               'clause 4 reuses fit_beads_autofluorescence (decided by C09)',
               'known-finding classifier: the K middle-half equal-count quantile windows (ordered by display-space distance '
               'to the minimum) do not have K distinct majority populations']
MIN_CHECKS = {'quick': 600, 'thorough': 15000}
REQUIRED_COUNTERS = ['chk:partition', 'chk:pairing', 'chk:fit', 'chk:accuracy', 'chk:metamorphic']
TIMEOUT_S = {'quick': 1500, 'thorough': 10000}
KNOWN = 'gmm-equal-count-seeding'
R = 262144


def make_beads(rng, balanced, container='float', force_low_pile=False, force_low_threshold=False, big=False, square=False):
    # container 'float': RFI stored directly ($DATATYPE=F, range 2^18); 'int': 10-bit, 4-decade log-amplified integers
    # that the real to_rfi converts (RFI range [1, 9910])
    R, floor = (262144, 8.0) if container == 'float' else (9910.0, 3.0)
    K = int(rng.integers(6, 9))
    C = int(rng.integers(1, 4))
    if square:
        # as many calibrated channels as bead subpopulations: the table of MEF values is square (one row per channel)
        K = C = int(rng.integers(6, 8))        # (six or seven subpopulations: the statement's bead sets have at least six)
    blank = rng.random() < 0.4
    sat_hi = rng.random() < 0.2
    sat_lo = (not blank) and rng.random() < 0.15
    all_zero = bool(rng.random() < 0.5)
    sel_scale = 'log' if (container == 'float' and rng.random() < 0.3) else None
    sel_low = 100.0 if (container == 'float' and sel_scale is None and rng.random() < 0.2) else None
    if force_low_threshold:
        # an explicit lower selection threshold (the upper one left at its default) and a brightest population piled up at the
        # upper limit: that population still does not take part in the fit
        sel_scale, sel_low, sat_hi = None, 100.0, True
    if force_low_pile:
        # the dimmest population sits entirely ON the lower limit 0 and the selection runs on a log axis
        blank, sat_lo, all_zero, sel_scale = False, True, True, 'log'
    if balanced:
        n0 = int(rng.integers(200, 801))
        sizes = [max(200, min(800, int(n0 * (1 + (rng.uniform(-0.1, 0.1) if rng.random() < 0.5 else 0))))) for _ in range(K)]
        if rng.random() < 0.5:
            sizes = [n0] * K
    else:
        sizes = [int(rng.integers(200, 801)) for _ in range(K)]
    if big == 'mid':
        # a bead sample of 12 000 - 40 000 events, every subpopulation the same size (so that an interleaved, round-robin
        # event order is exactly periodic: sub-sampled or strided shortcuts see some subpopulations only)
        n0 = int(np.ceil(float(rng.choice([12000, 18000, 26000, 36000])) / K))
        sizes = [n0] * K
    elif big:
        f_ = max(16, int(np.ceil(150000.0 / sum(sizes))))
        sizes = [int(v) * f_ for v in sizes]          # a bead sample of 150 000 events or more
    truth = np.repeat(np.arange(K), sizes)
    N = len(truth)
    cols, laws, mefs, rfis, atlimit = [], [], [], [], []
    for c in range(C):
        m, b = float(rng.uniform(0.9, 1.2)), float(rng.uniform(1, 5))
        nb = K - (1 if blank else 0)
        # non-blank medians: geometric ladder, brightest inside the range
        ratios = rng.uniform(2.5, 4.0, size=nb - 1)
        top = float(rng.uniform(0.05, 0.5)) * R
        lad = top / np.concatenate([[1.0], np.cumprod(ratios[::-1])])[::-1]
        if lad[0] < floor:       # keep the dimmest population clear of the lower limit
            lad = lad * (floor / lad[0])
            if lad[-1] > 0.5 * R:
                lad = np.geomspace(floor, 0.5 * R, nb)
        mefp = np.exp(b) * lad ** m
        auto = float(rng.uniform(mefp[0] / 50, mefp[0] / 3.2)) if (blank or rng.random() < 0.7) else 0.0
        mef = mefp - auto
        med = list(lad)
        mefl = list(mef)
        lim = [False] * nb
        if blank:
            r0 = (auto / np.exp(b)) ** (1 / m)
            med = [r0] + med
            mefl = [0.0] + mefl
            lim = [r0 < floor] + lim      # a blank this dim sits near the lower limit: selection may drop it (either accepted)
        if sat_hi:
            med[-1] = R * float(rng.uniform(1.3, 2.0))
            lim[-1] = True
        if sat_lo:
            med[0] = 0.0
            lim[0] = True
        if sel_low is not None:
            # populations within a factor 3 of the explicit lower threshold may legitimately be set aside (either accepted)
            lim = [l or (mm < 3 * sel_low) for l, mm in zip(lim, med)]
        if sel_scale == 'log':
            # on a log axis that starts at 1e-15 the default upper threshold (98.5 % of the axis) lies near 0.5 R: a
            # population brighter than R/10 may legitimately be set aside (either outcome accepted)
            lim = [l or (mm > 0.1 * R) for l, mm in zip(lim, med)]
        cv = rng.uniform(0.02, 0.05, size=K)
        col = np.empty(N)
        for k in range(K):
            sel = truth == k
            if med[k] == 0.0:
                # piled up at the lower limit: nine in ten events exactly on it, or every single one
                col[sel] = np.where(rng.random(sel.sum()) < (0.9 if all_zero is False else 2.0), 0.0, rng.uniform(0, 0.5, size=sel.sum()))
            else:
                sg = np.sqrt(np.log(1 + cv[k] ** 2))
                col[sel] = med[k] * np.exp(rng.normal(0, sg, size=sel.sum()))
        col = np.clip(col, 0, R - 1)
        if container == 'int':
            # what a 10-bit, 4-decade log amplifier records: channel = 256*log10(x), clipped to [0, 1023]
            col = np.clip(np.round(256.0 * np.log10(np.maximum(col, 1e-9))), 0, 1023)
        cols.append(col)
        laws.append((m, b, auto))
        mefs.append(mefl)
        rfis.append(med)
        atlimit.append(lim)
    order = rng.permutation(N)
    X = np.column_stack(cols)[order]
    truth = truth[order]
    return dict(container=container, K=K, C=C, X=X, truth=truth, laws=laws, mef=mefs, med=rfis, atlimit=atlimit, blank=blank,
                sat_hi=sat_hi, sat_lo=sat_lo, sizes=sizes, sel_scale=sel_scale, sel_low=sel_low)


def predicate_known(F, s, clustering_channels, truth, K):
    """input-only mechanism predicate of the known finding (see module docstring)."""
    d = np.array(np.asarray(s[:, clustering_channels]), dtype=float)
    for ch in range(d.shape[1]):
        t = F.plot._LogicleTransform(data=d, channel=ch).inverted()
        d[:, ch] = t.transform_non_affine(d[:, ch], mask_out_of_range=False)
    dist = np.sum((d - d.min(axis=0)) ** 2, axis=1)
    idx = np.argsort(dist)
    n_per = len(idx) / float(K)
    maj = []
    for i in range(K):
        w = idx[int((i + 0.25) * n_per):int((i + 0.75) * n_per)]
        maj.append(int(np.bincount(truth[w], minlength=K).argmax()))
    return len(set(maj)) < K


KNOWN_FIT = 'fit-termination-scatter'
KNOWN_PILE = 'gmm-pile-strays'


def fit_scatter(fit, sel_rfi, sel_mef, law):
    """Input-only probe of the second known finding: the same selected pairs, with the dimmest RFI moved by a few parts
    in 1e9..1e6, are fitted again; if the conversion error over the span scatters by more than 1 % (absolute) between these
    practically identical inputs, the optimiser's termination point is arbitrary for this bead set."""
    m_, b_, _a = law
    sr = np.asarray(sel_rfi, dtype=float)
    sm = np.asarray(sel_mef, dtype=float)
    if len(sr) < 3:
        return False, []
    x = np.geomspace(sr.min(), sr.max(), 60)
    errs = []
    for eps in (0.0, 1e-9, -1e-9, 1e-8, -1e-8, 1e-7, -1e-7, 1e-6, -1e-6):
        r = sr.copy()
        r[0] *= (1 + eps)
        with np.errstate(all='ignore'):
            o = core.attempt(fit, r, sm.copy())
        if o.raised:
            continue
        y = np.asarray(o.value[0](x), dtype=float)
        errs.append(float(np.max(np.abs(y / (np.exp(b_) * x ** m_) - 1))))
    return (len(errs) >= 3 and max(errs) - min(errs) > 0.01), errs


def run_once(F, s, bd, mef_values, chans, cl_ch, stat, seed, **kw):
    np.random.seed(seed)
    kw = dict(full_output=True, **kw) if 'full_output' not in kw else dict(kw)
    if bd.get('sel_scale'):
        kw['selection_params'] = {'scale': bd['sel_scale']}       # the documented selection on another axis scale
    if bd.get('sel_low') is not None:
        kw['selection_params'] = {'low': bd['sel_low']}           # an explicit lower threshold, the upper one by default
    return core.attempt(F.mef.get_transform_fxn, s, mef_values, chans, clustering_channels=cl_ch,
                        statistic_fxn=stat, **kw)


def run(ctx):
    F = core.import_flowcal()
    mon = monitors.Monitors(ctx, F)
    mon.attach_transform()          # the partial built by get_transform_fxn captures the monitored to_mef (C06 in situ)
    mon.attach_fit()
    fit = F.mef.fit_beads_autofluorescence
    path = os.path.join(ctx.tmpdir, 'c02.fcs')
    nb, nu = (44, 20) if ctx.tier == 'quick' else (5000, 2000)
    ids = [('bal', i) for i in range(nb)] + [('unb', i) for i in range(nu)]
    for cid, rng in ctx.cases(ids):
        mon.cid = cid
        container = 'int' if rng.random() < 0.35 else 'float'
        low_pile = cid[0] == 'bal' and cid[1] % 11 == 5
        low_thr = cid[0] == 'bal' and cid[1] % 11 == 7
        if low_pile or low_thr:
            container = 'float'
        bd = make_beads(rng, cid[0] == 'bal', container, force_low_pile=low_pile, force_low_threshold=low_thr,
                        big=(cid[0] == 'bal' and cid[1] % 22 == 9) or ('mid' if (cid[0] == 'bal' and cid[1] % 11 == 3) else False),
                        square=(cid[0] == 'bal' and cid[1] % 11 == 1))
        K, C = bd['K'], bd['C']
        names = ['FL%d' % (c + 1) for c in range(C)]
        if container == 'float':
            spec = dict(version='FCS3.0', datatype='F', widths=[32] * C, events=bd['X'].tolist(), ranges=[R] * C,
                        names=names, pne=['0,0'] * C)
            s = zoo.write_and_load(F, spec, path)
        else:
            spec = dict(version='FCS3.0', datatype='I', widths=[16] * C, events=bd['X'].astype(int).tolist(), ranges=[1024] * C,
                        names=names, pne=['4,1'] * C)
            s = F.transform.to_rfi(zoo.write_and_load(F, spec, path))
        # unknown entries
        mef_values = [list(v) for v in bd['mef']]
        unknown = [[False] * K for _ in range(C)]
        if rng.random() < 0.4:
            for c in range(C):
                for k in range(K):
                    usable = sum(1 for j in range(K) if not unknown[c][j] and not bd['atlimit'][c][j])
                    # the fit needs at least three populations: keep four usable ones per channel
                    if rng.random() < 0.15 and (usable - (0 if bd['atlimit'][c][k] else 1)) >= 4:
                        unknown[c][k] = True
                        mef_values[c][k] = None if rng.random() < 0.5 else np.nan
        ncl = int(rng.integers(1, C + 1))
        cl_ch = [names[int(i)] for i in rng.permutation(C)[:ncl]]
        use_mean = rng.random() < 0.3
        stat = F.stats.mean if use_mean else F.stats.median
        seed = int(rng.integers(1 << 30))
        single = C == 1 and rng.random() < 0.5
        chans_arg = names[0] if single else names
        mv_arg = mef_values[0] if single else mef_values
        known = predicate_known(F, s, cl_ch, bd['truth'], K)
        tag = '[known:%s]' % KNOWN if known else ''
        desc = dict(container=container, K=K, C=C, sizes=bd['sizes'], blank=bd['blank'], sat_hi=bd['sat_hi'], sat_lo=bd['sat_lo'],
                    clustering_channels=cl_ch, statistic='mean' if use_mean else 'median', seed=seed,
                    laws=bd['laws'], unknown=[[int(u) for u in row] for row in unknown], known_key=KNOWN if known else None)
        with np.errstate(all='ignore'):
            o = run_once(F, s, bd, mv_arg, chans_arg, cl_ch, stat, seed)
        klass = (cid[0], container, 'C%d' % C, 'blank' if bd['blank'] else '-', 'sat' if (bd['sat_hi'] or bd['sat_lo']) else '-',
                 'unknown' if any(any(u) for u in unknown) else '-', 'mean' if use_mean else 'median', 'pred' if known else 'strict')
        ctx.counters['chk:partition'] += 1
        if not ctx.check(not o.raised, 'workflow-raised' + tag, cid, exc=core.exc_str(o.exc) if o.raised else None, **desc):
            ctx.case_done(class_key=klass, nontrivial=True, distinct_key=core.digest(bd['X']))
            continue
        out = o.value
        labels = np.asarray(out.clustering['labels'])
        truth = bd['truth']
        # 1. one label per event, partition == generating partition
        ok1 = labels.shape == truth.shape
        if ok1:
            cont = np.zeros((K, K), dtype=int)
            ul = {l: i for i, l in enumerate(sorted(set(labels.tolist())))}
            ok1 = len(ul) == K
            if ok1:
                np.add.at(cont, (truth, np.array([ul[l] for l in labels.tolist()])), 1)
                ok1 = bool(np.all((cont > 0).sum(axis=0) == 1) and np.all((cont > 0).sum(axis=1) == 1))
        ptag = tag
        if not ok1 and not known and labels.shape == truth.shape and len(set(labels.tolist())) == K:
            # third listed mechanism: a subpopulation piled up on one value (at least nine in ten of its events identical in
            # every clustering channel) gets a mixture component of practically zero width, and its few events off the pile
            # are given to another component.  Classified only when EVERY misplaced event is such a stray.
            Acl = np.asarray(s)[:, [names.index(c) for c in cl_ch]].astype(float)
            maj = {l: int(np.bincount(truth[labels == l], minlength=K).argmax()) for l in set(labels.tolist())}
            mis = np.array([maj[l] for l in labels.tolist()]) != truth
            strays_only = bool(mis.any())
            for k_ in sorted(set(truth[mis].tolist())):
                rows_ = Acl[truth == k_]
                vals_, cnt_ = np.unique(rows_, axis=0, return_counts=True)
                pile = vals_[cnt_.argmax()]
                piled = cnt_.max() >= 0.9 * len(rows_)
                off_pile = np.any(Acl[mis & (truth == k_)] != pile, axis=1)
                strays_only = strays_only and piled and bool(off_pile.all())
            if strays_only:
                ptag = '[known:%s]' % KNOWN_PILE
                desc = dict(desc, known_key=KNOWN_PILE, misplaced=int(mis.sum()))
        part_ok = ctx.check(ok1, 'partition-differs-from-generating-partition' + ptag, cid, **desc)
        dtag = ptag if (ptag and not part_ok) else ''        # downstream of a known-mechanism partition failure
        # true subpopulations in brightness order (order of the clustering-channel means)
        A = np.asarray(s)
        pops = [A[truth == k] for k in range(K)]
        cl_idx = [names.index(c) for c in cl_ch]
        border = np.argsort([np.sum(np.mean(p[:, cl_idx], axis=0) ** 2) for p in pops])
        good = True
        ctx.check(list(out.mef_channels) == names, 'mef-channels' + dtag, cid, got=list(out.mef_channels))
        for c in range(C):
            tv = np.array([(np.mean if use_mean else np.median)(pops[k][:, c], axis=0) for k in border])
            sv = np.asarray(out.statistic['values'][c])
            # 2. one statistic per subpopulation, equal to the statistic of the true subpopulations in brightness order
            ok = sv.shape == (K,) and np.array_equal(sv, tv)
            good &= ctx.check(ok, 'statistic-not-of-true-subpopulations' + dtag, cid, channel=c, got=sv, want=tv, **desc)
            # 3. pairing: unknown and at-limit populations do not take part, the others keep their own values
            mv = np.array([np.nan if v is None else v for v in mef_values[c]], dtype=float)[np.argsort(np.argsort(np.arange(K)))]
            bo = list(border)
            want_mask_hard = np.array([not unknown[c][k] and not (bd['atlimit'][c][k] and (k == K - 1 and bd['sat_hi'] or k == 0 and bd['sat_lo']))
                                       for k in range(K)])
            soft = np.array([bd['atlimit'][c][k] and not (k == K - 1 and bd['sat_hi']) and not (k == 0 and bd['sat_lo']) for k in range(K)])
            sel_mef = np.asarray(out.selection['mef'][c])
            sel_rfi = np.asarray(out.selection['rfi'][c])      # keep the dtype the workflow used
            ctx.counters['chk:pairing'] += 1
            ok = len(sel_mef) == len(sel_rfi)
            cands = [want_mask_hard]
            si = [int(i) for i in np.nonzero(soft)[0]][:6]
            for r_ in range(1, len(si) + 1):                    # every subset of the 'either outcome accepted' populations
                for sub in itertools.combinations(si, r_):
                    mk = want_mask_hard.copy()
                    mk[list(sub)] = False
                    cands.append(mk)
            okp = ok and any(np.array_equal(sel_mef, mv[mk]) and np.array_equal(sel_rfi, tv[mk]) for mk in cands) \
                if list(border) == list(range(K)) else ok
            good &= ctx.check(okp, 'pairing-wrong' + dtag, cid, channel=c, sel_mef=sel_mef, sel_rfi=sel_rfi,
                              values=mv, true_stats=tv, atlimit=bd['atlimit'][c], **desc)
            # 4. fit equals the fit to the true statistics / selected values (bit for bit)
            ctx.counters['chk:fit'] += 1
            if okp and len(sel_mef) >= 3:
                with np.errstate(all='ignore'):
                    ref = fit(sel_rfi.copy(), sel_mef.copy())
                good &= ctx.check(np.array_equal(np.asarray(out.fitting['beads_params'][c]), np.asarray(ref[2])),
                                  'fit-not-fit-of-true-statistics' + dtag, cid, channel=c,
                                  got=out.fitting['beads_params'][c], want=ref[2])
                # 5. within 10% of the true conversion over the calibrated span
                m_, b_, auto_ = bd['laws'][c]
                x = np.geomspace(sel_rfi.min(), sel_rfi.max(), 60)
                t = s[:60].astype(np.float64)
                t[:, c] = x
                y = np.asarray(out.transform_fxn(t, names[c] if rng.random() < 0.5 else [names[c]]))[:, c]
                rel = np.abs(y / (np.exp(b_) * x ** m_) - 1)
                ctx.counters['chk:accuracy'] += 1
                ftag, fkey = dtag, desc.get('known_key')
                if float(rel.max()) > 0.10 and not dtag:
                    sc_, errs_ = fit_scatter(fit, sel_rfi, sel_mef, bd['laws'][c])
                    if sc_:
                        ftag, fkey = '[known:%s]' % KNOWN_FIT, KNOWN_FIT
                good &= ctx.check(float(rel.max()) <= 0.10, 'conversion-off-by-more-than-10pct' + ftag, cid, channel=c,
                                  worst=float(rel.max()), law=bd['laws'][c], params=out.fitting['beads_params'][c],
                                  **dict(desc, known_key=fkey))
                key = 'worst_conversion_error_ppm(shard %d)' % ctx.shard
                if not dtag:
                    ctx.notes[key] = max(ctx.notes.get(key, 0), int(rel.max() * 1e6))
        # 3b. the selection step switched off (selection_fxn=None, documented: "no populations are discarded"): every
        # subpopulation whose value is known takes part in ITS OWN channel's fit with its own value, whatever is unknown in the
        # channels calibrated before it
        if C >= 2 and part_ok and good and any(any(u) for u in unknown) and cid[1] % 2 == 0:
            with np.errstate(all='ignore'):
                on = run_once(F, s, bd, mv_arg, chans_arg, cl_ch, stat, seed, selection_fxn=None)
            ctx.counters['chk:pairing:no-selection'] += 1
            if ctx.check(not on.raised, 'workflow-raised:no-selection', cid, exc=core.exc_str(on.exc) if on.raised else None, **desc):
                for c in range(C):
                    mvc = np.array([np.nan if v is None else v for v in mef_values[c]], dtype=float)
                    want_ = mvc[~np.isnan(mvc)]
                    got_ = np.asarray(on.value.selection['mef'][c], dtype=float)
                    ctx.check(got_.shape == want_.shape and np.array_equal(got_, want_), 'pairing-wrong:no-selection', cid, channel=c,
                              got=got_.tolist(), want=want_.tolist(), **desc)
        # 5b. several channels converted in ONE call, requested in another order than they were calibrated in
        if C >= 2 and part_ok and good:
            spans = {}
            for c in range(C):
                sr = np.asarray(out.selection['rfi'][c], dtype=float)
                if len(sr) >= 3:
                    spans[c] = np.geomspace(sr.min(), sr.max(), 60)
            if len(spans) >= 2:
                order = [int(x) for x in rng.permutation(sorted(spans))]
                if order == sorted(order):
                    order = order[::-1]
                t = s[:60].astype(np.float64)
                for c, x in spans.items():
                    t[:, c] = x
                req = [names[c] if rng.random() < 0.5 else c for c in order]
                if rng.random() < 0.5:
                    # a channel named twice (by name and/or position) is still converted once, with its own curve
                    c2 = order[int(rng.integers(len(order)))]
                    req.append(names[c2] if rng.random() < 0.5 else c2)
                colpos = list(range(C))
                if rng.random() < 0.5:
                    # the sample to convert holds the same channels in ANOTHER column order than the beads file (cell files
                    # need not share the beads file's layout): channels are identified by name
                    colpos = [int(x) for x in rng.permutation(C)]
                    if colpos == list(range(C)):
                        colpos = colpos[::-1]
                    t = t[:, [names[c] for c in colpos]]
                    req = [names[c] if not isinstance(c, str) else c for c in req]
                where = {c: colpos.index(c) for c in range(C)}
                o5 = core.attempt(out.transform_fxn, t, req)
                ctx.counters['chk:accuracy'] += 1
                if ctx.check(not o5.raised, 'multi-channel-conversion-raised' + dtag, cid, request=req,
                             exc=core.exc_str(o5.exc) if o5.raised else None):
                    worst = 0.0
                    for c in order:
                        m_, b_, _a = bd['laws'][c]
                        y = np.asarray(o5.value)[:, where[c]]
                        worst = max(worst, float(np.max(np.abs(y / (np.exp(b_) * spans[c] ** m_) - 1))))
                    ctx.check(worst <= 0.10, 'conversion-off-by-more-than-10pct:multi-channel-request' + dtag, cid,
                              request=req, worst=worst, column_order=colpos, **desc)
        # 6. metamorphic: same seed twice identical; permuted events: same results modulo the permutation
        if (cid[1] % 3 == 0 or ctx.tier == 'thorough') and part_ok:
            with np.errstate(all='ignore'):
                o2 = run_once(F, s, bd, mv_arg, chans_arg, cl_ch, stat, seed)
            ctx.counters['chk:metamorphic'] += 1
            same = (not o2.raised) and np.array_equal(np.asarray(o2.value.clustering['labels']), labels) and \
                all(np.array_equal(a, b) for a, b in zip(o2.value.fitting['beads_params'], out.fitting['beads_params']))
            ctx.check(same, 'not-reproducible-for-fixed-seed' + tag, cid, **desc)
            # reproducibility also where membership is ambiguous: the same sample with stray events half-way between adjacent
            # subpopulations (as any real bead file has); two runs under one seed must agree label for label (no ground truth used)
            if container == 'float' and len(truth) <= 20000 and cid[1] % 2 == 0:
                X_ = np.asarray(s, dtype=float)
                med_ = [np.array([np.median(X_[truth == k, c]) for k in range(K)]) for c in range(C)]
                strays = []
                for k in range(K - 1):
                    for _ in range(12):
                        w = rng.uniform(0.3, 0.7)
                        strays.append([float(np.sqrt(max(med_[c][k], 1e-3) ** (2 * w) * max(med_[c][k + 1], 1e-3) ** (2 * (1 - w)))) for c in range(C)])
                ev = X_.tolist() + strays
                order_ = rng.permutation(len(ev))
                spec_a = dict(version='FCS3.0', datatype='F', widths=[32] * C, events=[ev[i] for i in order_], ranges=[262144] * C,
                              names=names, pne=['0,0'] * C)
                sa = zoo.write_and_load(F, spec_a, path)
                with np.errstate(all='ignore'):
                    r1 = run_once(F, sa, bd, mv_arg, chans_arg, cl_ch, stat, seed)
                    r2 = run_once(F, sa, bd, mv_arg, chans_arg, cl_ch, stat, seed)
                ctx.counters['chk:metamorphic'] += 1
                if r1.raised or r2.raised:
                    ctx.check(r1.raised and r2.raised, 'not-reproducible-for-fixed-seed', cid, with_stray_events=True,
                              why='one of two identical runs raised', **desc)
                else:
                    same2 = np.array_equal(np.asarray(r1.value.clustering['labels']), np.asarray(r2.value.clustering['labels'])) and \
                        all(np.array_equal(a, b, equal_nan=True) for a, b in zip(r1.value.fitting['beads_params'], r2.value.fitting['beads_params']))
                    ctx.check(same2, 'not-reproducible-for-fixed-seed', cid, with_stray_events=True, **desc)
            # the short return form (full_output=False), with progress messages on (verbose=True): the same transformation
            import contextlib
            import io
            with np.errstate(all='ignore'), contextlib.redirect_stdout(io.StringIO()):
                o4 = run_once(F, s, bd, mv_arg, chans_arg, cl_ch, stat, seed, full_output=False, verbose=bool(cid[1] % 2))
            ctx.counters['chk:metamorphic'] += 1
            if ctx.check(not o4.raised and callable(o4.value), 'short-form-not-a-transformation' + tag, cid,
                         exc=core.exc_str(o4.exc) if o4.raised else None, **desc):
                tt = s[:40].astype(np.float64)
                with np.errstate(all='ignore'):
                    ya = core.attempt(out.transform_fxn, tt, names)
                    yb = core.attempt(o4.value, tt, names)
                ctx.check((not ya.raised) and (not yb.raised) and np.asarray(ya.value).tobytes() == np.asarray(yb.value).tobytes(),
                          'short-form-differs-from-full-output' + tag, cid, **desc)
            perm = rng.permutation(len(truth))
            if len(truth) > 100000 or cid[1] % 9 == 4:
                # events grouped by the subpopulation that generated them (a sorted or concatenated file) is an order too
                perm = np.argsort(truth, kind='stable')
                if rng.random() < 0.5:
                    perm = perm[::-1]
            if 10000 < len(truth) <= 100000:
                # interleaved (round-robin) order: event i comes from subpopulation i mod K
                rank_ = np.empty(len(truth), dtype=int)
                for k_ in range(K):
                    w_ = np.flatnonzero(truth == k_)
                    rank_[w_] = np.arange(len(w_))
                perm = np.lexsort((truth, rank_))
            sp = s[perm]
            with np.errstate(all='ignore'):
                o3 = run_once(F, sp, bd, mv_arg, chans_arg, cl_ch, stat, seed)
            ok = not o3.raised
            why = [] if ok else ['raised: ' + core.exc_str(o3.exc)[:120]]
            scatter_only = []
            if ok:
                l3 = np.asarray(o3.value.clustering['labels'])
                # same partition modulo the permutation (label names may differ)
                pairs = set(zip(labels[perm].tolist(), l3.tolist()))
                ok = len(pairs) == K
                if not ok:
                    why.append('partition differs (%d label pairs for %d populations)' % (len(pairs), K))
                tol = 1e-5 if use_mean else 0
                for c in range(C):
                    a, b = np.asarray(out.statistic['values'][c]), np.asarray(o3.value.statistic['values'][c])
                    ok1 = a.shape == b.shape and bool(np.all(np.abs(a - b) <= tol * np.abs(a)))
                    ok2 = np.array_equal(np.asarray(out.selection['mef'][c]), np.asarray(o3.value.selection['mef'][c]))
                    if not ok1:
                        why.append('statistics of channel %d differ: %r vs %r' % (c, a.tolist(), b.tolist()))
                    if not ok2:
                        why.append('selected MEF values of channel %d differ: %r vs %r' % (c, np.asarray(out.selection['mef'][c]).tolist(),
                                                                                          np.asarray(o3.value.selection['mef'][c]).tolist()))
                    ok = ok and ok1 and ok2
                    # the statement requires the permuted run to meet the same ground truth (within 10% of the true
                    # conversion), not to reproduce the first run's optimiser output digit for digit (the fitted
                    # autofluorescence is ill-conditioned when the true one is ~0)
                    sr = np.asarray(o3.value.selection['rfi'][c], dtype=float)
                    if len(sr) >= 3:
                        m_, b_, _a = bd['laws'][c]
                        x = np.geomspace(sr.min(), sr.max(), 60)
                        y = np.asarray(o3.value.fitting['std_crv'][c](x), dtype=float)
                        e3 = float(np.max(np.abs(y / (np.exp(b_) * x ** m_) - 1)))
                        okc = e3 <= 0.10
                        if not okc:
                            why.append('conversion of channel %d off by %.4f after the permutation' % (c, e3))
                            sc_, errs_ = fit_scatter(fit, sr, np.asarray(o3.value.selection['mef'][c], dtype=float), bd['laws'][c])
                            if sc_:
                                scatter_only.append(c)
                            else:
                                scatter_only.append(None)
                        ok = ok and okc
            otag, okey = tag, desc.get('known_key')
            if not ok and not tag and scatter_only and all(c_ is not None for c_ in scatter_only) and len(scatter_only) == len(why):
                # the ONLY discrepancy is the accuracy of channels whose fit is arbitrary at the 1e-9 level (second known finding)
                otag, okey = '[known:%s]' % KNOWN_FIT, KNOWN_FIT
            ctx.check(ok, 'event-order-dependence' + otag, cid, why=why[:4], **dict(desc, known_key=okey))
        ctx.case_done(class_key=klass, nontrivial=True, distinct_key=core.digest(bd['X']),
                      sample={k: desc[k] for k in ('container', 'K', 'C', 'sizes', 'blank', 'sat_hi', 'sat_lo', 'clustering_channels', 'statistic', 'laws')}
                      if cid[1] < 2 else None)
    mon.detach()


def classify(v):
    return v.get('detail', {}).get('known_key') if '[known:' in v['mechanism'] else None
