"""C17 - acquisition metadata reflects the file's keywords and never blocks loading.

Monitor: contract on FCSData construction + a sweep of every accessor, against a reference derivation written from the
class docstring (names, labels, range, resolution, amplification type with the a1=0 fix-up, voltage/gain with vendor
fallbacks, time step standard/legacy, start/end time in the three standard formats combined with the date, duration
precedence).  Workload: lattice over presence / well-formed / ill-formed optional keywords x time channel x version.
"""
import datetime
import os

import numpy as np

from rv import core, fcsgen, zoo

ANCHORS = ['FCSData.__new__', 'FCSData.acquisition_time']      # functions the property is anchored in: never entered => inconclusive
LEVEL = 'exploration'
LEVEL_TEXT = 'Contract on FCSData(path) + accessor sweep against a reference derivation from the keywords over a presence/well-formed/ill-formed lattice of optional keywords x time channel x version, and on the real instrument files shipped with the repository. Exploration.'
TECHNIQUE = 'runtime contract on FCSData(path) + accessor sweep vs a reference keyword derivation over a keyword-presence lattice'
RULE = ('optional keywords {$TIMESTEP, TIMETICKS, $BTIM, $ETIM, $DATE, $PnV, $PnG, $PnS, CREATOR, BD$WORDn, CytekPnnG} '
        'each absent / well-formed (every accepted format) / ill-formed (non-numeric, wrong field count, out-of-range '
        'fields, blank) x time channel {absent, Time, TIME, time, two} x version; quick = random covering draws, thorough = '
        'more draws; non-trivial = at least one ill-formed keyword or a vendor fallback in play; distinct = digest(file)'
        ' Also: duration read after a selection that leaves no event; zero-event files with a time channel must not raise.')
ASSUMPTIONS = ['a two-digit-year date that fits both dd-mmm-yy and yy-mmm-dd is read as the standard dd-mmm-yy; nonstandard yy-mmm-dd dates are generated with yy > 31 or with a first field that is no day of the month (00, 30-Feb, 31-Apr)',
               'unparseable $TIMESTEP: absent time step or the legacy TIMETICKS value are both accepted',
               '1/60 s fractions compared within 1 microsecond', 'zero-event files with a time channel: the value of the duration is not judged, only that reading it does not raise']
MIN_CHECKS = {'quick': 12000, 'thorough': 300000}
REQUIRED_COUNTERS = ['chk:load', 'chk:time', 'chk:duration', 'chk:per-channel']

MON = ['JAN', 'FEB', 'MAR', 'APR', 'MAY', 'JUN', 'JUL', 'AUG', 'SEP', 'OCT', 'NOV', 'DEC']


def gen_time(rng):
    """-> (text or None, expected datetime.time or None, class)"""
    r = rng.random()
    if r < 0.15:
        return None, None, 'absent'
    h, m, s = int(rng.integers(0, 24)), int(rng.integers(0, 60)), int(rng.integers(0, 60))
    if r < 0.35:
        return '%02d:%02d:%02d' % (h, m, s), datetime.time(h, m, s), 'hh:mm:ss'
    if r < 0.55:
        tt = int(rng.integers(0, 60))
        us = tt * 1e6 / 60
        return '%02d:%02d:%02d:%02d' % (h, m, s, tt), (h, m, s, us), 'hh:mm:ss:tt'
    if r < 0.75:
        cc = int(rng.integers(0, 100))
        return '%02d:%02d:%02d.%02d' % (h, m, s, cc), datetime.time(h, m, s, cc * 10000), 'hh:mm:ss.cc'
    bad = ['25:00:00', '10:61:00', '10:00:61', '10:00', 'abc', '10:00:00:xx', '10:00:00:', '1:2:3:4:5', ' ',
           '10-00-00', '10:00:00.xx', 'aa:bb:cc', '10:00:00:99', '-1:00:00', '10:00:00.', '24:00:00',
           # spellings that other parsers (ISO 8601, float()) would take: still not one of the three FCS formats
           '16:50:29Z', '16:50:29+01', 'T16:50:29', '16:50:29,5', '16:50:29.1234567', '10:00:00:1e999', '10:00:00:inf',
           '10:00:00:nan', '10:00:00:-5', '10:00:00:60', '165029', '16:50:29 PM']
    return bad[int(rng.integers(len(bad)))], None, 'ill-formed'


def gen_date(rng):
    r = rng.random()
    if r < 0.25:
        return None, None, 'absent'
    d, mo = int(rng.integers(1, 29)), int(rng.integers(0, 12))
    if r < 0.4:
        # the standard FCS2.0 form; also with a year <= 31, where the text would fit the nonstandard yy-mmm-dd form as well:
        # the standard reading is the documented one (standard formats are tried first), whatever was loaded before
        yy = int(rng.integers(0, 100))
        return '%02d-%s-%02d' % (d, MON[mo], yy), datetime.date(1900 + yy if yy >= 69 else 2000 + yy, mo + 1, d), 'dd-mmm-yy'
    if r < 0.55:
        y = int(rng.integers(1990, 2031))
        return '%02d-%s-%04d' % (d, MON[mo].capitalize() if rng.random() < 0.3 else MON[mo], y), datetime.date(y, mo + 1, d), 'dd-mmm-yyyy'
    if r < 0.6:
        # yy-mmm-dd whose first field is at most 31 but is no day of that month (year 2000; the 30th/31st of a short month):
        # the standard dd-mmm-yy reading does not exist, so the accepted nonstandard reading applies
        yy, mo = [(0, mo), (0, mo), (31, int(rng.choice([1, 3, 5, 8, 10]))), (30, 1)][int(rng.integers(4))]
        return '%02d-%s-%02d' % (yy, MON[mo], d), datetime.date(2000 + yy, mo + 1, d), 'yy-mmm-dd:not-a-day'
    if r < 0.65:
        yy = int(rng.integers(32, 100))
        return '%02d-%s-%02d' % (yy, MON[mo], d), datetime.date(1900 + yy if yy >= 69 else 2000 + yy, mo + 1, d), 'yy-mmm-dd'
    if r < 0.75:
        y = int(rng.integers(1990, 2031))
        return '%04d-%s-%02d' % (y, MON[mo], d), datetime.date(y, mo + 1, d), 'yyyy-mmm-dd'
    bad = ['2020/01/05', '32-JAN-2020', 'xx', '05-XXX-2020', '05-JAN', ' ', '2020-01-05', 'JAN-05-2020', '00-JAN-2020']
    return bad[int(rng.integers(len(bad)))], None, 'ill-formed'


def gen_float_kw(rng, good):
    r = rng.random()
    if r < 0.3:
        return None, None, 'absent'
    if r < 0.75:
        v = good[int(rng.integers(len(good)))]
        return v, float(v), 'well-formed'
    bad = ['abc', ' ', '1,2', '4.5.6', 'NaNx', '0x10', '1e', '--3']
    return bad[int(rng.integers(len(bad)))], None, 'ill-formed'


def make_case(rng):
    D = int(rng.integers(1, 5))
    N = int(rng.integers(0, 8))
    tkind = str(rng.choice(['absent', 'absent', 'Time', 'TIME', 'time', 'two']))
    names = ['FSC-H', 'SSC-A', 'FL1-H', 'FL2-W'][:D]
    if rng.random() < 0.04:
        # a panel of more than 99 parameters: three-digit keyword indices ($P100N ...), long tables of per-channel attributes
        D = int(rng.integers(100, 130))
        names = ['P%03d-%s' % (j, 'AHW'[j % 3]) for j in range(D)]
    if tkind in ('Time', 'TIME', 'time'):
        names.append(tkind)
    elif tkind == 'two':
        names += ['Time', 'TIME']
    D = len(names)
    spec = zoo.int_spec(rng, n=N, d=D, names=names, limits=False)
    spec['extra'] = []
    if rng.random() < 0.06:
        # declared ranges beyond 2^24 (the full range of 32-bit parameters and more): exact in double precision only
        for j in range(len(spec['ranges'])):
            spec['ranges'][j] = int(rng.choice([1 << 25, (1 << 25) + 1, 20000001, 1 << 32, (1 << 32) - 1, 1 << 31]))
        spec['widths'] = [32] * len(spec['ranges'])
        spec['events'] = [[int(v) % 65536 for v in row] for row in spec['events']]
    if tkind != 'absent' and N:
        for i, row in enumerate(spec['events']):
            row[-1] = min(i * 7 + 3, spec['ranges'][-1] - 1)
    exp = {}
    cls = {}
    extra = []
    # time step
    ts, tsv, cls['timestep'] = gen_float_kw(rng, ['0.01', '1', '1e-3', '0.5', '2.0E-2', '0', '0.0'])
    tt, ttv, cls['timeticks'] = gen_float_kw(rng, ['100', '10', '1000', '250.0'])
    if rng.random() < 0.5:
        tt, ttv, cls['timeticks'] = None, None, 'absent'
    if ts is not None:
        extra.append(('$TIMESTEP', ts))
    if tt is not None:
        extra.append(('TIMETICKS', tt))
    if ts is not None:
        exp['time_step'] = [tsv] if tsv is not None else [None, (ttv / 1000. if ttv is not None else None)]
    elif tt is not None:
        exp['time_step'] = [ttv / 1000. if ttv is not None else None]
    else:
        exp['time_step'] = [None]
    bt, btv, cls['btim'] = gen_time(rng)
    et, etv, cls['etim'] = gen_time(rng)
    dt, dtv, cls['date'] = gen_date(rng)
    for k, v in (('$BTIM', bt), ('$ETIM', et), ('$DATE', dt)):
        if v is not None:
            extra.append((k, v))
    exp['start'], exp['end'], exp['date'] = btv, etv, dtv
    # per channel optional keywords
    creator = str(rng.choice(['none', 'none', 'CellQuest Pro 5.2.1', 'FlowJoCollectorsEdition 7.5.110.7', 'Other Software 1.0']))
    if creator != 'none':
        extra.append(('CREATOR', creator))
    pnv, png, pns, volt, gain, lab = [], [], [], [], [], []
    for i in range(1, D + 1):
        v, vv, c = gen_float_kw(rng, ['450', '450.5', '600', '1e2', '0', '0.0'])
        g, gv, c2 = gen_float_kw(rng, ['1', '2.5', '16', '0.5', '0', '0.0'])
        pnv.append(v)
        png.append(g)
        bw = None
        if rng.random() < 0.6:
            bw, bwv, _ = gen_float_kw(rng, ['333', '512.5'])
            if bw is not None:
                extra.append(('BD$WORD%d' % (12 + i), bw))
        ck = None
        if rng.random() < 0.6:
            ck, ckv, _ = gen_float_kw(rng, ['4', '8.0'])
            if ck is not None:
                extra.append(('CytekP%02dG' % i, ck))
        # expected voltage / gain
        if v is not None:
            volt.append(vv)
        elif 'CellQuest Pro' in creator and bw is not None:
            volt.append(bwv)
        else:
            volt.append(None)
        if g is not None:
            gain.append(gv)
        elif 'FlowJoCollectorsEdition' in creator and ck is not None:
            gain.append(ckv)
        else:
            gain.append(None)
        l = None if rng.random() < 0.4 else 'Label %d/%s' % (i, names[i - 1])
        pns.append(l)
        lab.append(l)
        cls.setdefault('pnv', set()).add(c)
        cls.setdefault('png', set()).add(c2)
    spec['pnv'], spec['png'], spec['pns'] = pnv, png, pns
    spec['extra'] = extra
    exp.update(volt=volt, gain=gain, labels=lab, names=names, N=N, tkind=tkind, creator=creator)
    at = []
    for e in spec['pne']:
        a = [float(x) for x in e.split(',')]
        if a[0] != 0 and a[1] == 0:
            a[1] = 1.0
        at.append(tuple(a))
    exp['amp'] = at
    exp['ranges'] = spec['ranges']
    exp['time_col'] = [row[-1] for row in spec['events']] if tkind in ('Time', 'TIME', 'time') else None
    return spec, exp, cls


def time_ok(got, want, date):
    """want: None | datetime.time | (h,m,s,us_float)"""
    if want is None:
        return got is None
    if got is None:
        return False
    if date is not None:
        if not isinstance(got, datetime.datetime) or got.date() != date:
            return False
        g = got.time()
    else:
        if not isinstance(got, datetime.time) or isinstance(got, datetime.datetime):
            return False
        g = got
    if isinstance(want, tuple):
        h, m, s, us = want
        return (g.hour, g.minute, g.second) == (h, m, s) and abs(g.microsecond - us) <= 1.0
    return g == want


def seconds(t):
    if isinstance(t, tuple):
        return t[0] * 3600 + t[1] * 60 + t[2] + t[3] / 1e6
    return t.hour * 3600 + t.minute * 60 + t.second + t.microsecond / 1e6


def check_against_text(ctx, cid, s, text, where):
    """Judge a loaded sample against the reference derivation from its own keywords (used for real instrument files)."""
    from rv.refmodels import metadata
    exp = metadata.derive(text)
    D = len(exp['channels'])
    ix = list(range(D))
    ctx.counters['chk:real-files'] += 1
    ctx.check(tuple(s.channels) == exp['channels'], 'channels', cid, where=where, got=list(s.channels))
    ctx.check(list(s.channel_labels(ix)) == exp['labels'], 'labels', cid, where=where)
    ctx.check([list(map(float, r)) for r in s.range(ix)] == exp['range'], 'range', cid, where=where)
    ctx.check(list(s.resolution(ix)) == exp['resolution'], 'resolution', cid, where=where)
    ctx.check(list(s.amplification_type(ix)) == exp['amp'], 'amplification-type', cid, where=where,
              got=list(s.amplification_type(ix)), want=exp['amp'])
    same = lambda a, b: all((x is None and y is None) or (x is not None and y is not None and (x == y or (x != x and y != y)))
                            for x, y in zip(a, b))
    ctx.check(same(list(s.detector_voltage(ix)), exp['volt']), 'detector-voltage', cid, where=where,
              got=list(s.detector_voltage(ix)), want=exp['volt'])
    ctx.check(same(list(s.amplifier_gain(ix)), exp['gain']), 'amplifier-gain', cid, where=where,
              got=list(s.amplifier_gain(ix)), want=exp['gain'])
    ts = s.time_step
    ctx.check(any((ts is None and w is None) or (ts is not None and w is not None and (abs(ts - w) <= 1e-12 * abs(w) or ts != ts))
                  for w in exp['time_step']), 'time-step', cid, where=where, got=ts, want=exp['time_step'])
    date = exp['date']
    if date != 'ambiguous' and exp['start'] != 'leap' and exp['end'] != 'leap':
        ctx.check(time_ok(s.acquisition_start_time, exp['start'], date), 'start-time', cid, where=where,
                  got=repr(s.acquisition_start_time), want=repr(exp['start']), date=repr(date))
        ctx.check(time_ok(s.acquisition_end_time, exp['end'], date), 'end-time', cid, where=where,
                  got=repr(s.acquisition_end_time), want=repr(exp['end']), date=repr(date))
    else:
        ctx.note('ambiguous date or leap second in a real file (not judged)')
    tch = [i for i, c in enumerate(exp['channels']) if c is not None and c.lower() == 'time']
    a = core.attempt(lambda: s.acquisition_time)
    if len(tch) == 1 and s.shape[0] == 0:
        ctx.check(not a.raised, 'duration-raises', cid, where=where, events=0, exc=core.exc_str(a.exc) if a.raised else None)
    if len(tch) <= 1 and (not tch or s.shape[0] > 0):
        if ctx.check(not a.raised, 'duration-raises', cid, where=where, exc=core.exc_str(a.exc) if a.raised else None):
            A = np.asarray(s)
            if tch and ts is not None:
                want = (float(A[-1, tch[0]]) - float(A[0, tch[0]])) * ts
            elif exp['start'] not in (None, 'leap') and exp['end'] not in (None, 'leap'):
                want = seconds(exp['end']) - seconds(exp['start'])
            else:
                want = None
            got = a.value
            ctx.check((want is None and got is None) or (want is not None and got is not None and abs(float(got) - want) <= 2e-6 + 1e-9 * abs(want)),
                      'duration', cid, where=where, got=got, want=want)
    return exp


def run(ctx):
    F = core.import_flowcal()
    path = os.path.join(ctx.tmpdir, 'c17.fcs')
    # ---- real instrument files shipped with the repository, judged from their own keywords -------------------
    if ctx.shard == 0 or ctx.only_case is not None:
        import glob
        root = core.repo_root()
        files = sorted(glob.glob(os.path.join(root, 'test', '*.fcs')) + glob.glob(os.path.join(root, 'examples', 'FCFiles', '*.fcs')))
        for fn in files:
            if os.path.getsize(fn) == 0:
                continue            # placeholder files emptied in this sandbox
            cid = ('real', os.path.relpath(fn, root))
            if ctx.only_case is not None and tuple(ctx.only_case) != cid:
                continue
            o = core.attempt(F.io.FCSData, fn)
            if ctx.check(not o.raised, 'loading-blocked-by-optional-keyword', cid, exc=core.exc_str(o.exc) if o.raised else None):
                text = dict(F.io.FCSFile(fn).text)
                check_against_text(ctx, cid, o.value, text, 'real-file')
                ctx.case_done(class_key=('real-file', text.get('$CYT', '?')[:20], text.get('CREATOR', '?')[:20]), nontrivial=True,
                              distinct_key=core.digest(cid),
                              sample={'file': cid[1], 'creator': text.get('CREATOR'), 'btim': text.get('$BTIM'), 'date': text.get('$DATE')}
                              if fn.endswith('Data001.fcs') else None)
    n = 1200 if ctx.tier == 'quick' else 200000
    for cid, rng in ctx.cases([('k', i) for i in range(n)]):
        spec, exp, cls = make_case(rng)
        raw, lay = fcsgen.build(spec)
        with open(path, 'wb') as fh:
            fh.write(raw)
        desc = dict(extra=spec['extra'], names=exp['names'], pnv=spec['pnv'], png=spec['png'], N=exp['N'], version=spec['version'])
        o = core.attempt(F.io.FCSData, path)
        ctx.counters['chk:load'] += 1
        clskey = (cls['timestep'], cls['timeticks'], cls['btim'], cls['etim'], cls['date'], exp['tkind'])
        ill = 'ill-formed' in clskey or 'ill-formed' in cls.get('pnv', ()) or 'ill-formed' in cls.get('png', ())
        if not ctx.check(not o.raised, 'loading-blocked-by-optional-keyword', cid, exc=core.exc_str(o.exc) if o.raised else None,
                         classes=clskey, **desc):
            ctx.case_done(class_key=clskey, nontrivial=ill, distinct_key=core.digest(raw))
            continue
        s = o.value
        D = len(exp['names'])
        ctx.counters['chk:per-channel'] += 1
        ctx.check(tuple(s.channels) == tuple(exp['names']), 'channels', cid, got=list(s.channels), **desc)
        ctx.check(list(s.channel_labels()) == exp['labels'], 'labels', cid, got=list(s.channel_labels()), want=exp['labels'])
        ctx.check([list(map(float, r)) for r in s.range()] == [[0.0, float(R - 1)] for R in exp['ranges']], 'range', cid,
                  got=s.range(), ranges=exp['ranges'])
        ctx.check(list(s.resolution()) == exp['ranges'] and all(isinstance(r, int) for r in s.resolution()), 'resolution', cid,
                  got=list(s.resolution()), ranges=exp['ranges'])
        ctx.check(list(s.amplification_type()) == exp['amp'], 'amplification-type', cid, got=list(s.amplification_type()),
                  want=exp['amp'], pne=spec['pne'])
        ctx.check(list(s.detector_voltage()) == exp['volt'], 'detector-voltage', cid, got=list(s.detector_voltage()),
                  want=exp['volt'], creator=exp['creator'], **desc)
        ctx.check(list(s.amplifier_gain()) == exp['gain'], 'amplifier-gain', cid, got=list(s.amplifier_gain()),
                  want=exp['gain'], creator=exp['creator'], **desc)
        # scalar / list accessor forms agree with the all-channel form
        j = int(rng.integers(D))
        ok = all(getattr(s, a)(j) == getattr(s, a)()[j] and getattr(s, a)([s.channels[j]]) == [getattr(s, a)()[j]]
                 for a in ('resolution', 'amplification_type', 'amplifier_gain', 'detector_voltage', 'channel_labels')) \
            if exp['tkind'] != 'two' else True
        ctx.check(ok, 'accessor-forms', cid, channel=j)
        ctx.check(s.data_type == 'I' and s.infile == path and s.text.get('$PAR') == str(D), 'file-attributes', cid)
        ts = s.time_step
        ctx.counters['chk:time'] += 1
        ctx.check(any((ts is None and w is None) or (ts is not None and w is not None and abs(ts - w) <= 1e-12 * abs(w))
                      for w in exp['time_step']), 'time-step', cid, got=ts, want=exp['time_step'], **desc)
        ctx.check(time_ok(s.acquisition_start_time, exp['start'], exp['date']), 'start-time', cid,
                  got=repr(s.acquisition_start_time), want=repr(exp['start']), date=repr(exp['date']), **desc)
        ctx.check(time_ok(s.acquisition_end_time, exp['end'], exp['date']), 'end-time', cid,
                  got=repr(s.acquisition_end_time), want=repr(exp['end']), date=repr(exp['date']), **desc)
        # ---- duration ---------------------------------------------------------------
        ctx.counters['chk:duration'] += 1
        a = core.attempt(lambda: s.acquisition_time)
        if exp['tkind'] == 'two':
            ctx.note('two time channels: ' + ('raises' if a.raised else 'returns') + ' (excepted by the statement)')
        elif exp['time_col'] is not None and exp['N'] == 0:
            # no event to read the time channel from: which fallback applies is not stated, but "without raising" is
            ctx.note('zero events with a time channel (value of the duration not judged, only that it does not raise)')
            ctx.check(not a.raised, 'duration-raises', cid, exc=core.exc_str(a.exc) if a.raised else None,
                      time_channel=exp['tkind'], time_step=ts, events=0, **desc)
        else:
            want = 'absent'
            if exp['time_col'] is not None and ts is not None:
                want = (exp['time_col'][-1] - exp['time_col'][0]) * ts
            elif exp['start'] is not None and exp['end'] is not None:
                want = seconds(exp['end']) - seconds(exp['start'])
            if ctx.check(not a.raised, 'duration-raises', cid, exc=core.exc_str(a.exc) if a.raised else None,
                         time_channel=exp['tkind'], time_step=ts, start=repr(s.acquisition_start_time),
                         end=repr(s.acquisition_end_time), **desc):
                got = a.value
                if want == 'absent':
                    ctx.check(got is None, 'duration', cid, got=got, want=None)
                else:
                    ctx.check(got is not None and abs(float(got) - want) <= 2e-6 + 1e-9 * abs(want), 'duration', cid,
                              got=got, want=want, time_channel=exp['tkind'], **desc)
        if exp['N'] > 0 and cid[1] % 3 == 0:
            # the same sample after a selection that leaves no event (a gate that keeps nothing): still "without raising"
            e_ = s[:0] if cid[1] % 2 else s[np.zeros(s.shape[0], dtype=bool)]
            ae = core.attempt(lambda: e_.acquisition_time)
            if exp['tkind'] != 'two':
                ctx.check(not ae.raised, 'duration-raises', cid, exc=core.exc_str(ae.exc) if ae.raised else None,
                          where='after a selection that leaves no event', time_channel=exp['tkind'], **desc)
        check_against_text(ctx, cid, s, dict(s.text), 'generated (reference derivation from the keywords)')
        vend = exp['creator'] != 'none'
        ctx.case_done(class_key=clskey, nontrivial=ill or vend, distinct_key=core.digest(raw),
                      sample=dict(desc, classes=clskey) if cid[1] < 2 else None)
