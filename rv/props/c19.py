"""C19 - histogram bin edges are increasing, complete and centred on channel values.

Monitor: contract on FCSData.hist_bins (class attribute rebound from the harness, so the gate, the plots and the Excel
workflow are monitored too): n+1 finite strictly increasing edges covering the range, positive log edges, logicle edges =
images of a uniform display grid under an independent logicle reference, value k at the centre of bin k for default n.
Driver: always a FRESH load per call (an earlier query must not matter here), list == per-channel answers, unknown scale.
"""
import os

import numpy as np

from rv import core, zoo, monitors

ANCHORS = ['FCSData.hist_bins']      # functions the property is anchored in: never entered => inconclusive
LEVEL = 'exploration'
LEVEL_TEXT = 'Contract on the real hist_bins (class attribute rebound, so gate/plots/Excel are monitored too): count, monotonicity, coverage, positive log edges, logicle edges vs an independent transform, centring for default n, list == per-channel, call-history independence, refusals. Exploration.'
TECHNIQUE = 'runtime contract on FCSData.hist_bins with an independent logicle reference and centring oracle'
RULE = ('fresh loads of samples with resolutions 2^8..2^18 and non-powers of two, raw / RFI / MEF ranges x channel forms '
        '{name, position, list, all} x n in {1,2,default,arbitrary,per-channel lists} x scale in {linear,log,logicle,'
        'per-channel lists,unknown} x logicle overrides; non-trivial = default n (centring clause) or log scale on a range '
        'starting at 0 or logicle with negative events; distinct = digest(sample, call)'
        ' Also: the same channel requested more than once with its own bin count/scale, samples without events, NaN/inf events in float samples, tuple/ndarray argument forms.')
ASSUMPTIONS = ['logicle edges compared with the reference transform at rtol 1e-9 (2e-5 for float32 samples)']
MIN_CHECKS = {'quick': 6000, 'thorough': 150000}
REQUIRED_COUNTERS = ['chk:hist_bins', 'chk:resolution-vs-keyword', 'chk_hist_centre_linear', 'chk_hist_centre_log', 'chk:list-vs-single', 'chk:refusal', 'chk:history', 'chk:form']


def fresh_like(s):
    """the same values and settings in an object no request was ever made of (pickle round trip)."""
    import pickle
    return pickle.loads(pickle.dumps(s))


def run(ctx):
    F = core.import_flowcal()
    mon = monitors.Monitors(ctx, F)
    mon.attach_hist_bins()
    path = os.path.join(ctx.tmpdir, 'c19.fcs')
    n = 90 if ctx.tier == 'quick' else 8000
    for cid, rng in ctx.cases([('s', i) for i in range(n)]):
        mon.cid = cid
        isint = rng.random() < 0.8
        if isint:
            big = rng.random() < 0.15
            huge = cid[1] % 45 == 11          # a 20-bit channel: the default bin count is its resolution (2^20 bins), uncapped
            spec = zoo.int_spec(rng, n=int(rng.integers(5, 40)), d=int(rng.integers(2, 5)) if not huge else 2, width=32 if huge else None,
                                res=(1 << 20) if huge else (int(rng.choice([65536, 262144])) if big else int(rng.choice([256, 1024, 4096, 1000, 1023]))))
        else:
            spec = zoo.float_spec(rng, n=int(rng.integers(5, 40)), d=int(rng.integers(2, 5)))
            if rng.random() < 0.5:
                # NaN / infinite events recorded beside negative ones: the edges are a function of the channel's range (and,
                # for logicle, of documented data-derived parameters) and must stay n+1 finite increasing values
                ev = spec['events']
                for j_ in range(len(ev[0])):
                    ev[int(rng.integers(len(ev)))][j_] = [float('nan'), float('nan'), float('inf')][int(rng.integers(3))]
        raw_bytes = None
        state = str(rng.choice(['raw', 'rfi', 'mef'])) if isint else 'raw'

        def fresh():
            s = zoo.write_and_load(F, spec, path)
            if state in ('rfi', 'mef'):
                s = F.transform.to_rfi(s)
            if state == 'mef':
                D_ = s.shape[1]
                crv = [zoo.make_curve(1.0 + 0.05 * i, 2.0 + i) for i in range(D_)]
                s = F.transform.to_mef(s, None, crv, list(range(D_)))
            return s
        s0 = fresh()
        D = s0.shape[1]
        # the number of values the detector can report is the file's $PnR (the oracle of the call monitor reads the sample's
        # own resolution accessor for the default bin count and the centring step: judged here against the keyword itself,
        # round z C19-z: a resolution rounded up to a power of two leaves 1000 values in 1024 bins, none of them centred)
        ctx.counters['chk:resolution-vs-keyword'] += 1
        ctx.check([int(v) for v in s0.resolution()] == [int(R_) for R_ in spec['ranges']], 'resolution-differs-from-PnR', cid,
                  got=[int(v) for v in s0.resolution()], want=[int(R_) for R_ in spec['ranges']], state=state)
        mon.hist_true_res = [int(R_) for R_ in spec['ranges']]
        mon.hist_true_names = list(spec['names'])
        for c in range(10):
            form = int(rng.integers(5))
            if form == 0:
                ch, pos = None, list(range(D))
            elif form == 1:
                p = int(rng.integers(D)); ch, pos = p, [p]
            elif form == 2:
                p = int(rng.integers(D)); ch, pos = s0.channels[p], [p]
            else:
                k = int(rng.integers(1, D + 1))
                pos = [int(x) for x in rng.permutation(D)[:k]]
                if rng.random() < 0.25:
                    # the same channel requested more than once (each occurrence with its own bin count / scale)
                    k = int(rng.integers(2, 5))
                    pos = [int(x) for x in rng.integers(0, D, size=k)]
                    pos[int(rng.integers(1, k))] = pos[0]
                ch = [s0.channels[q] if rng.random() < 0.5 else q for q in pos]
            dup = len(set(pos)) < len(pos)
            k = len(pos)
            is_list = ch is None or isinstance(ch, list)
            r = rng.random()
            if r < 0.35:
                nb = None
            elif r < 0.5:
                nb = int(rng.choice([1, 2]))
            elif (r < 0.8 and not dup) or not is_list:
                nb = int(rng.integers(3, 300))
            else:
                nb = [None if rng.random() < 0.3 else int(rng.integers(1, 200)) for _ in range(k)]
            scales = ['linear', 'log', 'logicle']
            if is_list and rng.random() < (0.6 if dup else 0.3):
                sc = [str(rng.choice(scales)) for _ in range(k)]
            else:
                sc = str(rng.choice(scales))
            kw = {}
            if rng.random() < 0.15 and (sc == 'logicle' or (isinstance(sc, list) and 'logicle' in sc)):
                kw = dict(T=float(rng.choice([1e4, 262144.0, 1e6])), M=float(rng.choice([4.5, 5.0])), W=float(rng.choice([0, 0.5, 1.0])))
            big_default = (nb is None or (isinstance(nb, list) and None in nb)) and max(spec['ranges']) > 5000
            if big_default and rng.random() < 0.7:
                nb = 64
            s = fresh()
            o = core.attempt(lambda: s.hist_bins(ch, nb, sc, **kw))
            d = dict(state=state, kind='int' if isint else 'float', channels=ch, nbins=nb, scale=sc, kwargs=kw,
                     ranges=spec['ranges'], pne=spec['pne'])
            if ctx.check(not o.raised, 'hist_bins:valid-call-refused', cid, exc=core.exc_str(o.exc) if o.raised else None, **d):
                if is_list:
                    # list request == per-channel answers (each on a fresh load)
                    ok = True
                    for j, p in enumerate(pos):
                        s1 = fresh()
                        single = s1.hist_bins(p, nb[j] if isinstance(nb, list) else nb, sc[j] if isinstance(sc, list) else sc, **kw)
                        ok = ok and np.array_equal(np.asarray(single), np.asarray(o.value[j]))
                    ctx.counters['chk:list-vs-single'] += 1
                    ctx.check(ok, 'hist_bins:list-vs-per-channel', cid, **d)
                if isinstance(ch, list) and rng.random() < 0.6:
                    # same request with the list arguments in another legal form (tuple / ndarray / NumPy scalars):
                    # a refused form is observed only; an accepted one is judged in situ and must give the same edges
                    fname, fch = core.pick_form(rng, ch)
                    fnb = tuple(nb) if isinstance(nb, list) else (np.int64(nb) if nb is not None and rng.random() < 0.5 else nb)
                    fsc = tuple(sc) if isinstance(sc, list) else sc
                    s2 = fresh()
                    o2 = core.attempt(lambda: s2.hist_bins(fch, fnb, fsc, **kw))
                    ctx.counters['chk:form'] += 1
                    if o2.raised:
                        ctx.note('form-refused:' + fname)
                    else:
                        same = len(o2.value) == len(o.value) and all(np.array_equal(np.asarray(a), np.asarray(b))
                                                                     for a, b in zip(o2.value, o.value))
                        ctx.check(same, 'form:edges-depend-on-argument-form', cid, form=fname, **d)
                if c % 3 == 0 and (sc in ('linear', 'log') or kw):
                    # a sample without events (e.g. after a gate that keeps nothing) has the same channels and ranges: linear
                    # and log edges, and logicle edges with explicit parameters, are a function of those alone
                    s3 = fresh()[:0]
                    o3 = core.attempt(lambda: s3.hist_bins(ch, nb, sc, **kw))
                    ctx.counters['chk:empty'] += 1
                    if ctx.check(not o3.raised, 'hist_bins:empty-sample-refused', cid, exc=core.exc_str(o3.exc) if o3.raised else None, **d):
                        a3 = o3.value if is_list else [o3.value]
                        b3 = o.value if is_list else [o.value]
                        ctx.check(len(a3) == len(b3) and all(np.array_equal(np.asarray(x), np.asarray(y)) for x, y in zip(a3, b3)),
                                  'hist_bins:empty-sample-other-edges', cid, **d)
            nt = nb is None or 'log' in (sc if isinstance(sc, list) else [sc]) or not isint
            ctx.case_done(class_key=('call', state, 'int' if isint else 'float', ('all', 'pos', 'name', 'list', 'list')[form],
                                     'n-default' if nb is None else ('n-list' if isinstance(nb, list) else 'n'),
                                     sc if isinstance(sc, str) else 'scale-list', 'kw' if kw else '-'),
                          nontrivial=nt, distinct_key=core.digest(cid, c), sample=d if cid[1] < 2 and c < 2 else None)
        # history: the answer must not depend on which bins were asked for before on the same object
        sh = fresh()
        seq = []
        p_fixed = int(rng.integers(D))
        for step in range(4):
            # (the same channel asked again with other options is the interesting history: scale, bin count, logicle parameters)
            p = p_fixed if rng.random() < 0.6 else int(rng.integers(D))
            scl = str(rng.choice(['log', 'linear', 'logicle', 'logicle']))
            nbh = None if (rng.random() < 0.4 and max(spec['ranges']) <= 5000) else int(rng.integers(2, 100))
            kwh = {}
            if scl == 'logicle' and rng.random() < 0.5:
                kwh = dict(T=float(rng.choice([1e4, 262144.0, 1e6])), M=float(rng.choice([4.5, 5.0])), W=float(rng.choice([0, 0.5, 1.0])))
                if rng.random() < 0.5:
                    kwh = {k_: kwh[k_] for k_ in list(kwh)[:int(rng.integers(1, 3))]}
            if rng.random() < 0.7:
                # other library operations on the sample or on a copy / slice / view of it, results discarded: none of them is
                # documented to change its input, so the sample still answers as a fresh load does
                seq.append(zoo.bystander(F, rng, sh))
                ctx.counters['chk:history:bystander-ops'] += 1
            seq.append((p, nbh, scl, kwh))
            o1 = core.attempt(lambda: sh.hist_bins(p, nbh, scl, **kwh))
            o2 = core.attempt(lambda: fresh().hist_bins(p, nbh, scl, **kwh))
            ctx.counters['chk:history'] += 1
            if not o1.raised and not o2.raised:
                ctx.check(np.array_equal(np.asarray(o1.value), np.asarray(o2.value)), 'hist_bins:answer-depends-on-earlier-calls', cid,
                          sequence=seq, state=state)
        # history: the caller edits the events of its own sample in place between two identical requests; the second answer is
        # that of the values the sample holds then (logicle edges follow the most negative event; each call is judged in situ)
        if rng.random() < 0.6:
            se = fresh()
            if se.dtype.kind == 'f' and rng.random() < 0.7:
                pe = int(rng.integers(D))
                q = (pe if rng.random() < 0.5 else [pe, (pe + 1) % D], 32, 'logicle')
                o1 = core.attempt(lambda: se.hist_bins(*q))
                se[:, pe] = -np.abs(np.asarray(se[:, pe])) * float(rng.choice([0.5, 3.0])) - 50.0
                etag = 'channel-made-negative'
            else:
                q = (None if rng.random() < 0.5 else int(rng.integers(D)), 32, str(rng.choice(['logicle', 'log', 'linear'])))
                o1 = core.attempt(lambda: se.hist_bins(*q))
                etag = zoo.edit_in_place(rng, se)
            o2 = core.attempt(lambda: se.hist_bins(*q))
            o3 = core.attempt(lambda: fresh_like(se).hist_bins(*q))
            ctx.counters['chk:history:edit-in-place'] += 1
            if not o2.raised and not o3.raised:
                a2 = o2.value if isinstance(o2.value, list) else [o2.value]
                a3 = o3.value if isinstance(o3.value, list) else [o3.value]
                ctx.check(len(a2) == len(a3) and all(np.array_equal(np.asarray(x), np.asarray(y), equal_nan=True) for x, y in zip(a2, a3)),
                          'hist_bins:answer-of-earlier-values', cid, edit=etag, query=core.jsonable(list(q)), state=state)
        # unknown scale is refused
        for bad in ('lin', 'Logicle', 'symlog', None, 3):
            s = fresh()
            o = core.attempt(lambda: s.hist_bins(0, 10, bad))
            ctx.counters['chk:refusal'] += 1
            if ctx.check(o.raised, 'refusal:unknown-scale-accepted', cid, scale=bad):
                ctx.refusal('scale:' + type(o.exc).__name__)
        s = fresh()
        o = core.attempt(lambda: s.hist_bins([0, 1] if D > 1 else [0], 10, ['linear', 'bogus'][:min(D, 2)] if D > 1 else ['bogus']))
        ctx.check(o.raised, 'refusal:unknown-scale-accepted', cid, scale='list with bogus')
    # the repository's own tests as a workload under the same monitors (their assertions are not the oracle)
    from rv import suite_workload
    suite_workload.run_repo_suite(ctx, mon, modules=('test_io.py', 'test_gate.py'))
    mon.detach()
