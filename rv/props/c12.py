"""C12 - summary statistics equal their definitions for any container and channel form.

Monitor: contracts on the ten FlowCal.stats functions (rv.monitors.oracle_stat): textbook definitions evaluated on
float64 copies of the single column in pure Python (fsum), tolerance by container dtype.  Driver: container equality
(plain array vs loaded sample of the same dtype and values), list == per-channel in order, defining identities.
"""
import os

import warnings

import numpy as np

from rv import core, zoo, monitors, fcsgen

ANCHORS = ['mean', 'gmean', 'median', 'mode', 'std', 'cv', 'gstd', 'gcv', 'iqr', 'rcv']      # functions the property is anchored in: never entered => inconclusive
LEVEL = 'exploration'
LEVEL_TEXT = "Contracts on the ten statistics with pure-Python textbook oracles (fsum, sorted middle, linear-interpolation quartiles, log-domain), tolerance by container dtype, container/spelling equivalence and identities; also in situ in the Excel workflow and under the repository's tests. Exploration."
TECHNIQUE = 'runtime contracts on the ten statistics with pure-Python textbook oracles + container/spelling equivalence driver'
RULE = ('matrices N in 1..3000 (quick 1..400) x dtypes {u1,u2,u4,u8 big/little endian as loaded, f4, f8} with ties, '
        'constant columns, positive-only columns x container {ndarray, raw sample, RFI sample, MEF sample} x channel '
        'argument {None, position, name, list, single-element list, mixed}; non-trivial = N>=3 and a non-constant '
        'column; distinct = digest(data, statistic, channel argument)'
        ' Also: derived samples (sliced, permuted, copied, pickled, channel-rearranged), samples without events, NaN values, columns with negative values (geometric statistics), requests naming a channel twice, tuple/ndarray request forms.')
ASSUMPTIONS = ['tolerance rtol 1e-6 (integer/float64 containers), 2e-5 (float32 containers: single-precision reductions are legitimate)',
               'geometric statistics: value judged on strictly positive columns; a column with a negative value or any statistic (except the mode) of a column with a NaN must be NaN; columns with zeros not judged']
MIN_CHECKS = {'quick': 15000, 'thorough': 300000}
REQUIRED_COUNTERS = ['chk:stats', 'chk:container', 'chk:identity', 'chk:form']

NAMES = monitors.STATS


def make_sample(F, rng, path, nmax):
    N = int(rng.choice([1, 2, 3, 4, 5])) if rng.random() < 0.2 else int(rng.integers(1, nmax + 1))
    D = int(rng.integers(1, 5))
    kind = str(rng.choice(['u1', 'u2', 'u4', 'u8', 'f4', 'f8']))
    positive = rng.random() < 0.6
    names = ['FSC', 'SSC', 'FL1', 'FL2'][:D]
    bo = str(rng.choice(['4,3,2,1', '1,2,3,4']))
    if kind[0] == 'u':
        w = int(kind[1]) * 8
        R = 1 << min(w, 40) if rng.random() < 0.7 else int(rng.choice([200, 1000, 1023])) if w > 8 else 200
        cols = []
        for j in range(D):
            style = rng.random()
            if style < 0.15:
                c = np.full(N, int(rng.integers(1, min(R, 250))))          # constant
            elif style < 0.5:
                c = rng.integers(1 if positive else 0, min(R, 12), size=N)  # heavy ties
            else:
                c = rng.integers(1 if positive else 0, R, size=N)
            cols.append([int(v) for v in c])
        events = [[cols[j][i] for j in range(D)] for i in range(N)]
        spec = dict(version='FCS3.0', datatype='I', widths=[w] * D, events=events, ranges=[R] * D, names=names,
                    byteord=bo, pne=[str(rng.choice(['0,0', '4,1'])) for _ in range(D)], png=[None] * D)
    else:
        dt = 'F' if kind == 'f4' else 'D'
        spec = zoo.float_spec(rng, n=N, d=D, negatives=not positive, names=names, dt=dt)
        if positive:
            spec['events'] = [[abs(v) + 0.5 for v in row] for row in spec['events']]
        r_ = rng.random()
        if r_ < 0.3:
            spec['events'] = [[float(int(v) % 7 + 1) for v in row] for row in spec['events']]   # ties
        elif r_ < 0.5 and N >= 3:
            # tight populations (relative spread 3e-4 .. 5e-3 about a large centre): the geometric SD is then within 1e-3 of 1
            # and exp(s^2) - 1 cancels, so a logarithm taken in the container's own single precision is off by per cents
            # (round z, C12-z); all positive, so that the geometric statistics are defined
            cen = [float(10 ** rng.uniform(2, 5)) for _ in range(D)]
            spr = [float(rng.choice([3e-4, 1e-3, 5e-3])) for _ in range(D)]
            f_ = np.float32 if dt == 'F' else np.float64
            spec['events'] = [[float(f_(cen[j] * (1 + spr[j] * rng.standard_normal()))) for j in range(D)] for _ in range(N)]
        if N >= 3 and rng.random() < 0.1:
            spec['events'][int(rng.integers(N))][int(rng.integers(D))] = float('nan')      # a NaN among the recorded values
        spec['byteord'] = bo
    return zoo.write_and_load(F, spec, path), kind, positive


def chan_forms(rng, s):
    D = s.shape[1]
    p = int(rng.integers(D))
    k = int(rng.integers(1, D + 1))
    pos = [int(x) for x in rng.permutation(D)[:k]]
    forms = [('none', None, None), ('pos', p, p), ('name', s.channels[p], p), ('neg', p - D, p),
             ('list-pos', pos, pos), ('list-name', [s.channels[q] for q in pos], pos),
             ('single-list', [s.channels[p]], [p]),
             ('mixed', [s.channels[q] if i % 2 else q for i, q in enumerate(pos)], pos)]
    forms.append(('list-neg', [q - D if i % 2 == 0 else q for i, q in enumerate(pos)], pos))
    dpos = pos + [pos[0]] + ([pos[-1]] if len(pos) > 1 else [])
    forms.append(('list-duplicates', [s.channels[q] if i % 2 else q for i, q in enumerate(dpos)], dpos))
    # other legal spellings of the list forms (tuple / ndarray / NumPy integers and strings): a refusal of one of
    # these is observed only ('x:' prefix), an accepted one is judged like every other form
    names = [s.channels[q] for q in pos]
    for base in (pos, names):
        fn_, val = core.pick_form(rng, base)
        forms.append(('x:' + fn_, val, pos))
    return forms


def close(a, b, tol):
    a, b = np.asarray(a, dtype=float), np.asarray(b, dtype=float)
    if a.shape != b.shape:
        return False
    with np.errstate(all='ignore'):
        ok = (np.abs(a - b) <= tol * np.maximum(np.abs(b), 1e-300) + 1e-300) | (a == b) | (np.isnan(a) & np.isnan(b))
    return bool(np.all(ok))


def run(ctx):
    F = core.import_flowcal()
    mon = monitors.Monitors(ctx, F)
    mon.attach_stats()
    path = os.path.join(ctx.tmpdir, 'c12.fcs')
    n = 140 if ctx.tier == 'quick' else 8000
    nmax = 400 if ctx.tier == 'quick' else 3000
    for cid, rng in ctx.cases([('s', i) for i in range(n)]):
        mon.cid = cid
        raw, kind, positive = make_sample(F, rng, path, nmax)
        conts = [('raw-sample', raw)]
        if raw.shape[0] >= 4 and rng.random() < 0.3:
            conts.append(('derived-sample', zoo.derive(rng, raw, min_events=2)[0]))     # sliced / copied / pickled / rearranged
        if raw.shape[0] >= 2 and rng.random() < 0.2:
            conts.append(('arith-sample', zoo.arith(rng, raw)[0]))      # values that went through arithmetic before (fractional values)
        if raw.shape[1] >= 2 and rng.random() < 0.35:
            # restored from a pickle with its columns in another arrangement than the samples restored before it in this
            # process (a name must be resolved against THIS sample's columns)
            import pickle
            perm_ = [int(x) for x in rng.permutation(raw.shape[1])]
            conts.append(('unpickled-rearranged', pickle.loads(pickle.dumps(raw[:, perm_], protocol=int(rng.integers(2, 6))))))
        if kind[0] == 'u' and rng.random() < 0.7:
            rfi = F.transform.to_rfi(raw)
            conts.append(('rfi-sample', rfi))
            if rng.random() < 0.6:
                crv = [zoo.make_curve(*p) for p in zoo.power_curves(rng, raw.shape[1])]
                conts.append(('mef-sample', F.transform.to_mef(rfi, None, crv, list(range(raw.shape[1])))))
        for cname, s in conts:
            plain = np.array(np.asarray(s))            # same dtype (incl. byte order) and values
            forms = chan_forms(rng, s)
            for st in NAMES:
                fn = getattr(F.stats, st)
                for fname, ch, pos in forms:
                    if rng.random() < 0.5 and fname not in ('none', 'name'):
                        continue
                    desc = dict(stat=st, container=cname, dtype=str(s.dtype), N=int(s.shape[0]), form=fname, channels=ch)
                    with np.errstate(all='ignore'):
                        o = core.attempt(fn, s, ch)
                    if fname.startswith('x:'):
                        ctx.counters['chk:form'] += 1
                        if o.raised:
                            ctx.note('form-refused:' + fname[2:])
                            continue
                        desc['channels'] = core.jsonable(ch)
                    if not ctx.check(not o.raised, 'stats:valid-call-refused:' + st, cid,
                                     exc=core.exc_str(o.exc) if o.raised else None, **desc):
                        continue
                    # container equality: plain array of the same dtype and values, positional spelling
                    with np.errstate(all='ignore'):
                        oa = core.attempt(fn, plain, pos)
                    ctx.counters['chk:container'] += 1
                    if ctx.check(not oa.raised, 'stats:valid-call-refused:' + st, cid, exc=core.exc_str(oa.exc) if oa.raised else None,
                                 **dict(desc, container='array')):
                        ctx.check(close(o.value, oa.value, 1e-12), 'container:array-vs-sample', cid,
                                  got=o.value, array=oa.value, **desc)
                    # list == per-channel results in order
                    if isinstance(pos, list):
                        with np.errstate(all='ignore'):
                            per = [core.attempt(fn, s, q) for q in pos]
                        if all(not p.raised for p in per):
                            ctx.counters['chk:container'] += 1
                            ctx.check(close(o.value, [p.value for p in per], 1e-12), 'container:list-vs-per-channel', cid,
                                      got=o.value, per=[p.value for p in per], **desc)
                    A = np.asarray(s)
                    ctx.case_done(class_key=(st, cname, kind, fname), nontrivial=s.shape[0] >= 3 and bool(np.any(A != A[0])),
                                  distinct_key=core.digest(cid, cname, st, fname),
                                  sample=desc if (cid[1] < 1 and st == 'iqr' and fname == 'name') else None)
            # ---- a container without events (e.g. after a gate that keeps nothing): no definition applies, but an answer,
            # if one is given, has the shape of the request and is the same for array and sample and per channel
            if cid[1] % 3 == 0:
                e, pe = s[:0], plain[:0]
                for st in NAMES:
                    fn = getattr(F.stats, st)
                    for fname, ch, pos in forms:
                        if fname.startswith('x:'):
                            continue
                        with np.errstate(all='ignore'), warnings.catch_warnings():
                            warnings.simplefilter('ignore')
                            o, oa = core.attempt(fn, e, ch), core.attempt(fn, pe, pos)
                        ctx.counters['chk:empty'] += 1
                        if o.raised or oa.raised:
                            ctx.note('empty container: %s raises (%s)' % (st, 'both' if o.raised and oa.raised else 'one of array/sample'))
                            continue
                        want_shape = (s.shape[1],) if pos is None else ((len(pos),) if isinstance(pos, list) else ())
                        ctx.check(np.shape(o.value) == want_shape and np.shape(oa.value) == want_shape, 'empty:result-shape', cid,
                                  stat=st, form=fname, got=[list(np.shape(o.value)), list(np.shape(oa.value))], want=list(want_shape))
                        ctx.check(close(o.value, oa.value, 1e-12), 'empty:array-vs-sample', cid, stat=st, form=fname)
            # ---- history: the caller edits its own container in place between two identical requests; the second answer
            # is the statistic of the values the container holds then (each call is judged in situ against the definitions)
            if s.shape[0] >= 2 and rng.random() < 0.5:
                for cont_ in (s.copy(), plain.copy()):
                    for st in NAMES:
                        fn = getattr(F.stats, st)
                        fname, ch, pos = forms[int(rng.integers(len(forms)))]
                        if fname.startswith('x:'):
                            continue
                        req = ch if cont_ is not plain and hasattr(cont_, 'channels') else pos
                        with np.errstate(all='ignore'):
                            o1 = core.attempt(fn, cont_, req)
                            etag = zoo.edit_in_place(rng, cont_)
                            o2 = core.attempt(fn, cont_, req)
                            fresh_ = core.attempt(fn, cont_.copy(), req)
                        ctx.counters['chk:history:edit-in-place'] += 1
                        if not o2.raised and not fresh_.raised:
                            ctx.check(close(o2.value, fresh_.value, 0), 'history:answer-of-earlier-values', cid, stat=st, edit=etag,
                                      form=fname, got=o2.value, fresh_copy=fresh_.value)
            with np.errstate(all='ignore'):
                v = {st: core.attempt(getattr(F.stats, st), s) for st in NAMES}
            tol = monitors.stat_tol(s.dtype)
            if all(not v[k].raised for k in ('cv', 'std', 'mean')):
                ok = close(v['cv'].value, np.asarray(v['std'].value) / np.asarray(v['mean'].value), tol)
                ctx.counters['chk:identity'] += 1
                ctx.check(ok, 'identity:cv', cid, container=cname, dtype=str(s.dtype))
            if all(not v[k].raised for k in ('rcv', 'iqr', 'median')):
                with np.errstate(all='ignore'):
                    ok = close(v['rcv'].value, np.asarray(v['iqr'].value) / np.asarray(v['median'].value), tol)
                ctx.counters['chk:identity'] += 1
                ctx.check(ok, 'identity:rcv', cid, container=cname, dtype=str(s.dtype))
            if all(not v[k].raised for k in ('gcv', 'gstd')):
                g = np.asarray(v['gstd'].value, dtype=float)
                with np.errstate(all='ignore'):
                    want_gcv = np.sqrt(np.exp(np.log(g) ** 2) - 1)
                    gv = np.asarray(v['gcv'].value, dtype=float)
                    ok = close(gv, want_gcv, 1e-4) or \
                        bool(np.all((np.abs(gv - want_gcv) < 1e-7) | (np.isnan(gv) & np.isnan(want_gcv))))
                ctx.counters['chk:identity'] += 1
                ctx.check(ok, 'identity:gcv', cid, container=cname, dtype=str(s.dtype), gstd=g, gcv=v['gcv'].value)
    # ---- a large sample: more than 10^5 events, one channel drifting along the event axis (block-wise or streamed
    # reductions engage only here, and drop between-block terms exactly when the channel drifts)
    for cid, rng in ctx.cases([('big', i) for i in range(1 if ctx.tier == 'quick' else 8)]):
        mon.cid = cid
        N = int(rng.choice([100001, 180000, 300001]))
        drift = np.sort(rng.integers(1, 60000, size=N))
        noise = rng.integers(1, 4096, size=N)
        if rng.random() < 0.5:
            spec = dict(version='FCS3.0', datatype='I', widths=[16, 16], events=[[int(a), int(b)] for a, b in zip(drift, noise)],
                        ranges=[65536, 4096], names=['Time', 'FL1'], byteord=str(rng.choice(['4,3,2,1', '1,2,3,4'])), pne=['0,0', '4,1'], png=[None, None])
        else:
            spec = dict(version='FCS3.0', datatype='D', widths=[64, 64], events=[[float(a) + 0.25, float(b) * 1.5] for a, b in zip(drift, noise)],
                        ranges=[262144, 262144], names=['Time', 'FL1'], byteord='1,2,3,4', pne=['0,0', '0,0'], png=[None, None])
        s = zoo.write_and_load(F, spec, path)
        plain = np.array(np.asarray(s))
        for st in NAMES:
            fn = getattr(F.stats, st)
            for ch, pos in ((None, None), ('Time', 0), ([1, 0], [1, 0])):
                with np.errstate(all='ignore'):
                    o, oa = core.attempt(fn, s, ch), core.attempt(fn, plain, pos)       # judged by the in-situ oracle
                ctx.counters['chk:container'] += 1
                if ctx.check(not o.raised and not oa.raised, 'stats:valid-call-refused:' + st, cid, N=N,
                             exc=core.exc_str(o.exc or oa.exc) if (o.raised or oa.raised) else None):
                    ctx.check(close(o.value, oa.value, 1e-12), 'container:array-vs-sample', cid, stat=st, N=N)
        ctx.case_done(class_key=('big-sample', spec['datatype']), nontrivial=True, distinct_key=core.digest(cid))
    # the repository's own tests as a workload under the same monitors (their assertions are not the oracle)
    from rv import suite_workload
    suite_workload.run_repo_suite(ctx, mon, modules=('test_stats.py',))
    mon.detach()
