"""C06 - MEF conversion applies each channel's own standard curve, or refuses.

Monitor: contract on FlowCal.transform.to_mef (rv.monitors.oracle_to_mef): requested & covered columns equal their
own curve applied to the float64 input column (exactly), everything else bit-identical, metadata unchanged.
Driver: all permutations of the (curve, channel) pairing, subsets/orders/spellings, uncovered requests and length
mismatches (must raise), and the functools.partial built by mef.get_transform_fxn.
"""
import itertools
import os

import numpy as np

from rv import core, zoo, monitors

ANCHORS = ['to_mef']      # functions the property is anchored in: never entered => inconclusive
LEVEL = 'exploration'
LEVEL_TEXT = 'Contract on the real to_mef with distinct injective curves and every permutation of the pairing; covered requests must equal their own curve bitwise, others stay bit-identical, uncovered requests and length mismatches must raise; also evaluated on the partial built by get_transform_fxn (C02) and in the Excel workflow. Exploration.'
TECHNIQUE = 'runtime contract on to_mef (own-curve oracle with distinct injective curves) + refusal driver'
RULE = ('samples/arrays with 2..6 channels x lists of distinct injective curves (affine and power laws) x every '
        'permutation of the pairing for <=4 curves x requested subsets/orders/spellings incl. None, one uncovered '
        'channel, unequal lengths; non-trivial = >=2 curves and a request whose order differs from the curve order; '
        'distinct = digest(sample, pairing, request)'
        ' Also: even and saturating curves, NaN/inf/negative events, samples without events, derived samples, requests naming a channel twice, tuple/ndarray argument forms.')
ASSUMPTIONS = ['curves are pure functions; expected column computed by calling the same curve object on the same '
               'float64 column view (bitwise comparison)']
MIN_CHECKS = {'quick': 8000, 'thorough': 150000}
REQUIRED_COUNTERS = ['chk:mef', 'chk:refusal', 'chk:form']


def curves(rng, k):
    out = []
    for i in range(k):
        r = rng.random()
        if r < 0.12:
            a = float(i + 2)
            f = (lambda a: (lambda x: a * x ** 2))(a)            # even: -inf -> +inf, negative events change sign
            f.desc = ('square', a)
        elif r < 0.24:
            a = float(1000 * (i + 1))
            f = (lambda a: (lambda x: a / (1.0 + np.abs(x))))(a)  # saturating: +/-inf -> 0
            f.desc = ('saturating', a)
        elif r < 0.5:
            a, c = float(i + 2), float(100 * (i + 1))
            f = (lambda a, c: (lambda x: a * x + c))(a, c)
            f.desc = ('affine', a, c)
        else:
            m, b = float(rng.uniform(0.85, 1.25)), float(rng.uniform(0, 7)) + i
            f = zoo.make_curve(m, b)
            f.desc = ('power', m, b)
        out.append(f)
    return out


def spell(rng, s, pos):
    if not hasattr(s, 'channels'):
        return [int(p) for p in pos]
    mode = int(rng.integers(3))
    if mode == 0:
        return [s.channels[p] for p in pos]
    if mode == 1:
        return [int(p) for p in pos]
    # negative positions are deliberately not used here: the statement speaks of names and positions, and
    # to_mef compares a negative request with a non-negative curve channel literally (a loud spurious refusal,
    # probed and reported as an observation below, not judged)
    return [s.channels[p] if rng.random() < 0.5 else int(p) for p in pos]


def run(ctx):
    F = core.import_flowcal()
    mon = monitors.Monitors(ctx, F)
    mon.attach_transform()
    to_mef = F.transform.to_mef
    path = os.path.join(ctx.tmpdir, 'c06.fcs')
    nsamp = 50 if ctx.tier == 'quick' else 8000
    for cid, rng in ctx.cases([('s', i) for i in range(nsamp)]):
        mon.cid = cid
        D = int(rng.integers(2, 7))
        kind = int(rng.integers(3))
        N = 0 if rng.random() < 0.06 else int(rng.integers(4, 30))     # (a sample without events still has channels and limits)
        if cid[1] % 25 == 6:
            N, D = int(rng.choice([65537, 140001, 300001])), min(D, 3)         # tens of thousands of events (chunked / fast paths)
        if kind == 0:
            s = zoo.write_and_load(F, zoo.int_spec(rng, n=N, d=D), path)
        elif kind == 1:
            s = zoo.write_and_load(F, zoo.float_spec(rng, n=N, d=D), path)
        else:
            s = rng.integers(0, 1024, size=(N, D)).astype(float)
            if N and rng.random() < 0.4:
                # special values among the events: each is converted by its channel's curve like any other value
                for _ in range(int(rng.integers(1, 5))):
                    s[int(rng.integers(N)), int(rng.integers(D))] = [np.nan, np.inf, -np.inf, -7.5][int(rng.integers(4))]
        if kind == 0 and rng.random() < 0.5:
            s = F.transform.to_rfi(s)
        if kind in (0, 1) and rng.random() < 0.3:
            s, _dtag = zoo.derive(rng, s)                       # a sample in the middle of an analysis
            D = s.shape[1]
        if kind in (0, 1) and s.shape[0] and rng.random() < 0.2:
            s, _atag = zoo.arith(rng, s)                        # values that went through arithmetic before (fractional values)
            ctx.counters['chk:arith-derived'] += 1
        k = int(rng.integers(1, min(D, 4) + 1))
        covered = [int(x) for x in rng.permutation(D)[:k]]
        cl = curves(rng, k)
        perms = list(itertools.permutations(range(k)))
        for pi, perm in enumerate(perms):
            sc_pos = [covered[i] for i in perm]
            sc_list = [cl[i] for i in perm]
            sc_ch = spell(rng, s, sc_pos)
            # requests: None, full in other order, subsets
            reqs = [None]
            for _ in range(3):
                kk = int(rng.integers(1, k + 1))
                reqs.append([covered[int(i)] for i in rng.permutation(k)[:kk]])
            # a channel named more than once in the request is still converted with its own curve, once
            base = [covered[int(i)] for i in rng.permutation(k)[:int(rng.integers(1, k + 1))]]
            reqs.append(base + [base[0]] + ([base[-1]] if rng.random() < 0.5 else []))
            if pi == 0:
                reqs.append([])         # an empty request (a filtered channel list that came out empty) converts nothing
            for req in reqs:
                rq = None if req is None else spell(rng, s, req)
                if rq is not None and len(rq) == 1 and rng.random() < 0.5:
                    rq = rq[0]
                o = core.attempt(to_mef, s, rq, sc_list, sc_ch)
                ctx.check(not o.raised, 'mef:valid-call-refused', cid, exc=core.exc_str(o.exc) if o.raised else None,
                          request=rq, sc_channels=sc_ch)
                # the same call with the list arguments in another legal form (tuple, ndarray, NumPy ints/strings):
                # a refused form is observed only, an accepted form is judged by the in-situ monitor and must agree
                if not o.raised and isinstance(rq, list) and rng.random() < 0.5:
                    f1, frq = core.pick_form(rng, rq)
                    f2, fsc = core.pick_form(rng, sc_ch)
                    fl = tuple(sc_list) if rng.random() < 0.5 else sc_list
                    o2 = core.attempt(to_mef, s, frq, fl, fsc)
                    ctx.counters['chk:form'] += 1
                    if o2.raised:
                        ctx.note('form-refused:%s/%s' % (f1, f2))
                    else:
                        ctx.check(np.asarray(o2.value).tobytes() == np.asarray(o.value).tobytes(),
                                  'form:result-depends-on-argument-form', cid, forms=[f1, f2], request=rq, sc_channels=sc_ch)
                nt = k >= 2 and req is not None and [p for p in sc_pos if p in req] != list(req)
                ctx.case_done(class_key=('call', ('int', 'float', 'array')[kind], k, 'none' if req is None else len(req)),
                              nontrivial=nt, distinct_key=core.digest(cid, pi, req),
                              sample={'curves': [c.desc for c in sc_list], 'sc_channels': sc_ch, 'request': rq}
                              if pi == 0 and cid[1] < 3 and req is not None else None)
            # sc_channels=None: curves for all columns in order
            if pi == 0 and D <= 4:
                allc = curves(rng, D)
                o = core.attempt(to_mef, s, spell(rng, s, covered), allc, None)
                ctx.check(not o.raised, 'mef:valid-call-refused', cid, exc=core.exc_str(o.exc) if o.raised else None,
                          sc_channels=None)
            if pi == 0:
                o = core.attempt(to_mef, s, [covered[0] - D], sc_list, sc_ch)
                ctx.note('mixed-sign position spelling: ' + ('refused (loud, not judged)' if o.raised else 'converted'))
            # ---- refusals -----------------------------------------------------
            unc = [p for p in range(D) if p not in covered]
            if unc:
                u = unc[int(rng.integers(len(unc)))]
                req = list(covered) + [u]
                req = [req[int(i)] for i in rng.permutation(len(req))]
                for rq in (spell(rng, s, req), spell(rng, s, [u]), spell(rng, s, [u])[0]):
                    o = core.attempt(to_mef, s, rq, sc_list, sc_ch)
                    ctx.counters['chk:refusal'] += 1
                    if ctx.check(o.raised, 'refusal:uncovered-channel-accepted', cid, request=rq, sc_channels=sc_ch):
                        ctx.refusal('uncovered:' + type(o.exc).__name__)
            for badlen in (k - 1, k + 1):
                bl = (sc_list + sc_list)[:badlen]
                o = core.attempt(to_mef, s, spell(rng, s, covered[:1]), bl, sc_ch)
                ctx.counters['chk:refusal'] += 1
                if ctx.check(o.raised, 'refusal:length-mismatch-accepted', cid, n_curves=badlen, n_channels=k):
                    ctx.refusal('length:' + type(o.exc).__name__)
            ctx.case_done(class_key=('refusals',), nontrivial=True, distinct_key=core.digest(cid, pi, 'ref'))
    # the repository's own tests as a workload under the same monitors (their assertions are not the oracle)
    from rv import suite_workload
    suite_workload.run_repo_suite(ctx, mon, modules=('test_transform.py',))
    mon.detach()
