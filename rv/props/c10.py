"""C10 - Excel results equal the documented library steps applied by hand.

Monitor: contracts on excel_ui.process_samples_table / add_samples_stats / generate_histograms_table over generated
experiments: every returned cell sample is compared bit for bit (values + all metadata) with a hand composition of
the documented steps; statistics columns == FlowCal.stats of the gated sample; histogram rows == np.histogram over
the library's bin edges.  The library steps themselves run under their own monitors in situ (C03/C05/C06/C08/C12/C19).
"""
import os
import sys
import warnings

import numpy as np
import pandas as pd

from rv import core, excelgen, monitors
from rv.fingerprint import fp, diff

ANCHORS = ['process_samples_table', 'process_beads_table', 'add_samples_stats', 'generate_histograms_table']      # functions the property is anchored in: never entered => inconclusive
LEVEL = 'exploration'
LEVEL_TEXT = "The real Excel workflow on generated experiments; every returned sample compared bit for bit with a hand composition of the documented steps, statistics columns with the library statistics of the gated sample, histogram rows with np.histogram over the library's edges; the library steps run under their own monitors in situ. Exploration."
TECHNIQUE = 'runtime contract on the Excel workflow vs hand composition of documented steps, with library-step monitors attached in situ'
RULE = ('generated experiments: 1..3 instruments with different channel names, 0..2 bead rows, 1..4 sample rows x '
        'per-channel units from {empty, Channel, RFI, a.u., au, MEF, case/whitespace variants} x gate fractions x integer '
        'and float data x with/without histogram sheet; non-trivial = row with >= 1 reported channel; '
        'distinct = digest(row file, units, fraction)'
        " Also: single and double precision cell files, cell files whose columns are arranged unlike the beads file, comma-separated cells in several blank spellings, gate fraction 0 and integer 1, a 'Channel' cell processed before a converted one.")
ASSUMPTIONS = ['hand composition reuses the library steps (decided by C03/C05/C06/C08/C12)',
               "histogram scale for other letter cases of 'channel' is not settled by the docs: either accepted"]
MIN_CHECKS = {'quick': 400, 'thorough': 8000}
REQUIRED_COUNTERS = ['chk:hand-composition', 'chk:stats-columns', 'chk:histogram']
TIMEOUT_S = {'quick': 1800, 'thorough': 12000}

STAT_COLS = [('Mean', 'mean'), ('Geom. Mean', 'gmean'), ('Median', 'median'), ('Mode', 'mode'), ('Std', 'std'),
             ('CV', 'cv'), ('Geom. Std', 'gstd'), ('Geom. CV', 'gcv'), ('IQR', 'iqr'), ('RCV', 'rcv')]


def hand(F, base, row, inst_row, mef_fxns, is_integer_file):
    """documented steps, composed by hand (module docstring of excel_ui + docs)."""
    s = F.io.FCSData(os.path.join(base, row['File Path']))
    sc = [inst_row['Forward Scatter Channel'], inst_row['Side Scatter Channel']]
    s = F.transform.to_rfi(s, sc)
    fl = [c.strip() for c in inst_row['Fluorescence Channels'].split(',')]
    rep = []
    for ch in fl:
        col = ch + ' Units'
        if col not in row.index or pd.isnull(row[col]):
            continue
        u = row[col].strip().lower()
        if u == 'channel':
            pass
        elif u in ('rfi', 'a.u.', 'au'):
            s = F.transform.to_rfi(s, ch)
        elif u == 'mef':
            s = F.transform.to_rfi(s, ch)
            # the referenced beads' calibration of THIS channel, looked up by channel name in the bead row's fitting output
            # (not through the generated function, whose channel bookkeeping is part of what is checked)
            mo = mef_fxns[row['Beads ID']]
            crv = mo.fitting['std_crv'][list(mo.mef_channels).index(ch)]
            s = F.transform.to_mef(s, ch, [crv], [ch])
        else:
            raise ValueError('unexpected units in generator: %r' % u)
        rep.append(ch)
    s = F.gate.start_end(s, num_start=250, num_end=100)
    if is_integer_file:      # "when the data are integers": decided from the file as written ($DATATYPE I), not from the library
        s = F.gate.high_low(s, sc + rep)
    s = F.gate.density2d(s, channels=sc, gate_fraction=row['Gate Fraction'], xscale='logicle', yscale='logicle')
    return s, rep


def close(a, b):
    isn = lambda v: v is None or (isinstance(v, float) and np.isnan(v))      # an absent value is an empty (NaN) cell
    if isn(a) or isn(b):
        return isn(a) and isn(b)
    try:
        a, b = float(a), float(b)
    except (TypeError, ValueError):
        return a == b
    if np.isnan(a) or np.isnan(b):
        return np.isnan(a) and np.isnan(b)
    return a == b or abs(a - b) <= 1e-12 * max(abs(a), abs(b))


def run(ctx):
    F = core.import_flowcal()
    E = F.excel_ui
    mon = monitors.Monitors(ctx, F, tag='excel-pipeline')
    for a in ('attach_transform', 'attach_gates', 'attach_stats', 'attach_hist_bins', 'attach_fit'):
        getattr(mon, a)()
    mon.judge_limits = True
    n = 8 if ctx.tier == 'quick' else 200
    for cid, rng in ctx.cases([('exp', i) for i in range(n)]):
        mon.cid = cid
        base = os.path.join(ctx.tmpdir, 'exp')
        if cid[1] % 4 == 1:
            # one instrument, one calibrated bead row, integer cell files in ANOTHER column order than the beads file, MEF units
            itab, btab, stab, info = excelgen.experiment(rng, base, n_inst=1, n_beads=1, n_samples=int(rng.integers(2, 4)), float_frac=0.0,
                                                         permute_columns=1.0, units_pool=['MEF', 'mef', 'MEF', 'RFI', ' MEF '])
        else:
          itab, btab, stab, info = excelgen.experiment(rng, base, n_beads=int(rng.integers(0, 3)) if cid[1] % 2 else 1,
                                                     force_float_first=('D' if cid[1] % 4 == 0 else True) if cid[1] % 2 == 0 else False,   # single / double precision
                                                     permute_columns=0.9 if cid[1] % 2 else 0.2,   # cell files laid out unlike the beads file
                                                     big_first=cid[1] % 8 == 6,                    # a cell file of 70 001 events
                                                     n_samples=int(rng.integers(2, 5)) if cid[1] % 4 in (2, 3) else None,
                                                     blank_units_last=cid[1] % 4 in (2, 3),        # last row: no fluorescence channel reported
                                                     float_frac=0.75 if cid[1] % 4 == 0 else 0.3,  # several floating-point rows (negative events:
                                                     n_inst=1 if cid[1] % 4 == 0 else None,        #  per-row logicle bins) on one instrument
                                                     units_pool=(['Channel', 'Channel', 'RFI', 'a.u.', 'MEF', 'au'] if cid[1] % 4 == 3      # raw-channel cells before converted ones
                                                                 else excelgen.UNITS))
        if cid[1] % 4 in (1, 3):
            # a stray blank at the end (start) of the whole channel-list cell, as typed by a user
            for iid_ in itab.index:
                c_ = itab.at[iid_, 'Fluorescence Channels'].strip()
                itab.at[iid_, 'Fluorescence Channels'] = (c_ + ' ') if cid[1] % 4 == 1 else (' ' + c_)
        if cid[1] % 4 == 3 and len(stab) >= 1:
            # a raw-channel cell ('Channel': linear bins) is processed BEFORE a converted one (logicle bins) in the same table
            fl_of = lambda sid_: [c.strip() for c in itab.at[stab.at[sid_, 'Instrument ID'], 'Fluorescence Channels'].split(',')]
            first, last = stab.index[0], stab.index[-1]
            stab.at[first, fl_of(first)[0] + ' Units'] = 'Channel'
            if len(stab) > 1 or len(fl_of(last)) > 1:
                stab.at[last, fl_of(last)[-1] + ' Units'] = 'RFI'
        np.random.seed(int(rng.integers(1 << 30)))
        with warnings.catch_warnings():
            warnings.simplefilter('ignore')
            ob = core.attempt(E.process_beads_table, btab, itab, base_dir=base, verbose=False, plot=False, full_output=True)
        if not ctx.check(not ob.raised, 'beads-table-raised', cid, exc=core.tb_str(ob.exc)[-600:] if ob.raised else None):
            continue
        beads_samples, mef_fxns, mef_outputs = ob.value
        E.add_beads_stats(btab, beads_samples, mef_outputs)
        # the hand composition runs BEFORE the batch in every other experiment and AFTER it in the others, so that state
        # leaking between successive library calls (caches, rewritten ranges) cannot hide behind a fixed order
        hands = {}
        hand_first = cid[1] % 2 == 1
        if hand_first:
            for sid, row in stab.iterrows():
                with warnings.catch_warnings():
                    warnings.simplefilter('ignore')
                    hands[sid] = core.attempt(hand, F, base, row, itab.loc[row['Instrument ID']], mef_outputs,
                                              info['sample_specs'][sid]['datatype'] == 'I')
        with warnings.catch_warnings():
            warnings.simplefilter('ignore')
            # (plots requested in the experiments with a large cell file and in one other: what is returned must not depend on it)
            with_plots = cid[1] % 8 in (6, 2)
            o = core.attempt(E.process_samples_table, stab, itab, mef_transform_fxns=mef_fxns, beads_table=btab,
                             base_dir=base, verbose=False, plot=with_plots, plot_dir='plot_samples')
            import matplotlib.pyplot as _plt
            _plt.close('all')
        if not ctx.check(not o.raised, 'samples-table-raised', cid, exc=core.tb_str(o.exc)[-600:] if o.raised else None):
            continue
        samples = o.value
        ctx.check(list(samples.keys()) == list(stab.index), 'result-keys', cid, got=list(samples.keys()), want=list(stab.index))
        reps = {}
        for sid, row in stab.iterrows():
            got = samples[sid]
            desc = dict(sample=sid, units={c: row[c] for c in row.index if c.endswith(' Units') and not pd.isnull(row[c])},
                        fraction=row['Gate Fraction'], beads=row['Beads ID'], data=info['sample_specs'][sid]['datatype'])
            ctx.counters['chk:hand-composition'] += 1
            if any(str(u).strip().lower() == 'mef' for u in desc['units'].values()) and row['Beads ID'] in beads_samples and \
                    list(info['sample_specs'][sid]['names']) != list(beads_samples[row['Beads ID']].channels):
                ctx.note('MEF rows on a cell file laid out unlike its beads file')
            if isinstance(got, Exception):
                ctx.check(False, 'well-formed-row-reported-as-error', cid, error=str(got), **desc)
                continue
            if sid in hands:
                h = hands[sid]
            else:
                with warnings.catch_warnings():
                    warnings.simplefilter('ignore')
                    h = core.attempt(hand, F, base, row, itab.loc[row['Instrument ID']], mef_outputs,
                                              info['sample_specs'][sid]['datatype'] == 'I')
            if h.raised:
                ctx.note('hand composition raised: ' + core.exc_str(h.exc)[:100])
                ctx.counters['oracle_errors'] += 1
                continue
            want, rep = h.value
            reps[sid] = rep
            fa, fb = fp(got, ident=False), fp(want, ident=False)
            ctx.check(fa == fb, 'sample-differs-from-hand-composition', cid, first_diff=diff(fb, fa),
                      got_shape=list(got.shape), want_shape=list(want.shape), **desc)
            ctx.case_done(class_key=('row', desc['data'], tuple(sorted(set(str(u).strip().lower() for u in desc['units'].values()))),
                                     row['Gate Fraction']),
                          nontrivial=len(rep) >= 1, distinct_key=core.digest(cid, sid), sample=desc if cid[1] < 1 else None)
        # ---- statistics columns -------------------------------------------------------
        st = stab.copy()
        with warnings.catch_warnings(record=True) as wlist:
            warnings.simplefilter('always')
            oa = core.attempt(E.add_samples_stats, st, samples)
        if ctx.check(not oa.raised, 'add-samples-stats-raised', cid, exc=core.tb_str(oa.exc)[-600:] if oa.raised else None):
            for sid in st.index:
                g = samples[sid]
                if isinstance(g, Exception) or sid not in reps:
                    continue
                ctx.counters['chk:stats-columns'] += 1
                ctx.check(st.at[sid, 'Number of Events'] == g.shape[0], 'stats:event-count', cid, sample=sid,
                          got=st.at[sid, 'Number of Events'], want=int(g.shape[0]))
                at = core.attempt(lambda: g.acquisition_time)
                if not at.raised:
                    ctx.check(close(st.at[sid, 'Acquisition Time (s)'], at.value), 'stats:acquisition-time', cid, sample=sid,
                              got=st.at[sid, 'Acquisition Time (s)'], want=at.value)
                note = st.at[sid, 'Analysis Notes']
                for ch in reps[sid]:
                    A = np.asarray(g[:, ch])
                    pos = g[A > 0] if np.any(A <= 0) else g
                    for colname, fn in STAT_COLS:
                        src = pos if fn in ('gmean', 'gstd', 'gcv') else g
                        with np.errstate(all='ignore'):
                            w = core.attempt(getattr(F.stats, fn), src, ch)
                        if w.raised:
                            continue
                        gotv = st.at[sid, '%s %s' % (ch, colname)]
                        ctx.check(close(gotv, w.value), 'stats:column-not-library-statistic', cid, sample=sid, channel=ch,
                                  column=colname, got=gotv, want=w.value)
                    if np.any(A <= 0):
                        ctx.check(isinstance(note, str) and 'positive events' in note and ch in note, 'stats:missing-positive-only-note',
                                  cid, sample=sid, channel=ch, note=note)
                    ctx.check(close(st.at[sid, ch + ' Detector Volt.'], g.detector_voltage(ch)) and
                              st.at[sid, ch + ' Amp. Type'] == ('Log' if g.amplification_type(ch)[0] else 'Linear'),
                              'stats:voltage-amp-columns', cid, sample=sid, channel=ch)
                if not any(np.any(np.asarray(g[:, ch]) <= 0) for ch in reps[sid]):
                    ctx.check(note == '', 'stats:unexpected-note', cid, sample=sid, note=note)
                # unreported channels have empty statistics
                for c in st.columns:
                    if c.endswith(' Mean') and not c.endswith('Geom. Mean'):
                        ch = c[:-5]
                        if ch not in reps[sid]:
                            ctx.check(pd.isnull(st.at[sid, c]), 'stats:unreported-channel-has-statistics', cid, sample=sid, channel=ch)
        # ---- histogram sheet --------------------------------------------------------------
        if (rng.random() < 0.8 or cid[1] % 4 == 3) and not oa.raised:
            with warnings.catch_warnings():
                warnings.simplefilter('ignore')
                oh = core.attempt(E.generate_histograms_table, st, samples)
            if ctx.check(not oh.raised, 'histograms-raised', cid, exc=core.tb_str(oh.exc)[-600:] if oh.raised else None):
                H = oh.value
                for sid in st.index:
                    g = samples[sid]
                    if isinstance(g, Exception) or sid not in reps:
                        continue
                    for ch in reps[sid]:
                        unit = st.at[sid, ch + ' Units']
                        scales = ['linear'] if unit == 'Channel' else (['logicle'] if unit.strip().lower() != 'channel' else ['linear', 'logicle'])
                        nb = min(g.resolution(ch), 1024)
                        ctx.counters['chk:histogram'] += 1
                        try:
                            counts = np.array(H.loc[(sid, ch, 'Counts')].values[:nb], dtype=float)
                            cents = np.array(H.loc[(sid, ch, 'Bin Centers (%s)' % unit)].values[:nb], dtype=float)
                        except KeyError as e:
                            ctx.check(False, 'histogram:row-missing', cid, sample=sid, channel=ch, exc=str(e))
                            continue
                        ok = False
                        for scl in scales:
                            ext = g.hist_bins(ch, 2 * nb, scl)
                            edges, cen = ext[::2], ext[1::2]
                            hc, _ = np.histogram(np.asarray(g[:, ch]), bins=edges)
                            if np.array_equal(counts, hc) and np.allclose(cents, cen, rtol=1e-12, atol=0):
                                ok = True
                                inside = int(np.sum((np.asarray(g[:, ch]) >= edges[0]) & (np.asarray(g[:, ch]) <= edges[-1])))
                                ctx.check(int(counts.sum()) == inside, 'histogram:counts-do-not-sum-to-events-in-range', cid,
                                          sample=sid, channel=ch, total=int(counts.sum()), inside=inside)
                        ctx.check(ok, 'histogram:counts-or-centres-differ', cid, sample=sid, channel=ch, unit=unit)
                ctx.check(set(i[0] for i in H.index) <= set(s_ for s_ in st.index if s_ in reps), 'histogram:rows-for-unexpected-samples', cid)
    mon.detach()
