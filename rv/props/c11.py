"""C11 - in a batch, a failing row is reported in place and does not affect other rows.

Fault enumeration: every assignment of {no fault} U {documented fault kinds} to the rows of small sample tables
(exhaustive for <= 2 rows quick / <= 3 rows thorough), random larger tables and row permutations, bead tables with
bead-row faults, empty tables.  Shape B: the batch result is compared with single-row runs of each healthy row (same
calibration objects): bit-identical samples; faulty rows must come back as the row's error object, rendered as an
'ERROR:' note with empty statistics, no exception may escape, results keyed by row id in table order.
"""
import itertools
import os
import warnings

import numpy as np
import pandas as pd

from rv import core, excelgen, monitors
from rv.fingerprint import fp, diff

ANCHORS = ['process_beads_table', 'process_samples_table', 'add_beads_stats', 'add_samples_stats', 'generate_histograms_table']      # functions the property is anchored in: never entered => inconclusive
LEVEL = 'fault_enumeration'
LEVEL_TEXT = 'Fault enumeration: every assignment of {none} + 19 fault kinds (the documented row errors in their variants) to the rows of 1-2 (quick) / 1-3 (thorough) row tables, random larger tables, permutations, bead-row faults and empty tables on the real workflow; healthy rows compared bit for bit with single-row runs. Exhaustive over the assignments for the stated table sizes.'
TECHNIQUE = 'fault enumeration over row-fault assignments + batch-vs-single-row history checker on the real Excel workflow'
RULE = ('sample tables of 1..5 rows over generated FCS files x every assignment of {none, missing file, <400 events, '
        'fraction<0, fraction>1, unknown units, calibration failed / absent / no curve for channel, beads of another '
        'instrument / amplifier type / detector voltage} (exhaustive for <=2 rows quick, <=3 rows thorough; fractions also outside [0,1] by only 1e-9) + random 4-5 row '
        'tables + permutations; bead tables with {missing file, <400 events, fraction out of range, unequal MEF lists}; '
        'empty tables; non-trivial = table with >= 1 faulty row; distinct = (row specs, fault assignment)'
        ' Also: unopenable path spellings for the missing-file fault, mismatches in the second calibrated channel only, rendering under another row order, the batch without the optional beads table.')
ASSUMPTIONS = ['healthy rows compared with their single-row runs sharing the same calibration objects',
               'Beads ID / Instrument ID that exist nowhere are not among the documented faults: not generated']
MIN_CHECKS = {'quick': 1500, 'thorough': 30000}
EXHAUSTIVE = {'quick': True, 'thorough': True}
REQUIRED_COUNTERS = ['chk:isolation', 'chk:error-row', 'chk:no-escape', 'chk:beads-table']
TIMEOUT_S = {'quick': 2400, 'thorough': 14000}

FAULTS = ['missing-file', 'few-events', 'fraction-neg', 'fraction-big', 'fraction-neg-tiny', 'fraction-big-tiny', 'bad-units', 'calib-failed', 'calib-nomef',
          'calib-nochannel', 'other-instrument', 'other-amp', 'other-voltage',
          # the same mismatches seen from the sample's side: the row shares the *healthy* rows' beads (Bgood) but its own
          # file / instrument differs, so any per-beads memo of a passed check would wrongly let it through
          'sample-other-instrument', 'sample-other-amp', 'sample-other-voltage',
          # the row's file records a detector voltage of 0 (a value, not an absent one) while the beads record another
          'sample-other-voltage-zero',
          # only the row's SECOND calibrated channel was acquired with other settings than the beads (the first agrees)
          'sample-other-amp-2nd', 'sample-other-voltage-2nd']


def build_world(F, rng, base, int_ids=False):
    E = F.excel_ui
    os.makedirs(base, exist_ok=True)
    i0 = dict(ID='I0', fsc='FSC-H', ssc='SSC-H', fl=['FL1-H', 'FL2-H'], time='Time')
    i1 = dict(ID='I1', fsc='FSC-H', ssc='SSC-H', fl=['FL1-H', 'FL2-H'], time='Time')
    itab = pd.DataFrame([{'ID': it['ID'], 'Forward Scatter Channel': it['fsc'], 'Side Scatter Channel': it['ssc'],
                          'Fluorescence Channels': ', '.join(it['fl']), 'Time Channel': it['time']} for it in (i0, i1)]).set_index('ID')
    D = 5
    excelgen.beads_file(rng, i0, os.path.join(base, 'b_good.fcs'), npop=3, per=150)
    excelgen.beads_file(rng, i0, os.path.join(base, 'b_volt.fcs'), npop=3, per=150, voltage=[str(555 + j) for j in range(D)])
    excelgen.beads_file(rng, i0, os.path.join(base, 'b_amp.fcs'), npop=3, per=150, amp_log=False)
    excelgen.beads_file(rng, i0, os.path.join(base, 'b_few.fcs'), npop=2, per=10)
    mv = '800, 5000, 30000'
    rows = [
        dict(ID='Bgood', iid='I0', fp='b_good.fcs', m1=mv, m2='1600, 10000, 60000', gf=0.5),
        dict(ID='Bother', iid='I1', fp='b_good.fcs', m1=mv, m2=mv, gf=0.5),
        dict(ID='Bvolt', iid='I0', fp='b_volt.fcs', m1=mv, m2=mv, gf=0.5),
        dict(ID='Bamp', iid='I0', fp='b_amp.fcs', m1=mv, m2=mv, gf=0.5),
        dict(ID='Bfail', iid='I0', fp='b_missing.fcs', m1=mv, m2=mv, gf=0.5),
        dict(ID='Bnomef', iid='I0', fp='b_good.fcs', m1=None, m2=None, gf=0.5),
        dict(ID='Bpartial', iid='I0', fp='b_good.fcs', m1=mv, m2=None, gf=0.5),
    ]
    # beads identified by numbers (1, 2, ...) instead of names: a Samples column holding numbers and blanks is read as
    # floating point by the spreadsheet reader (1 becomes 1.0) and must still address its beads row
    idmap = {r['ID']: (k + 1 if int_ids else r['ID']) for k, r in enumerate(rows)}
    for r in rows:
        r['ID'] = idmap[r['ID']]
    btab = pd.DataFrame([{'ID': r['ID'], 'Instrument ID': r['iid'], 'File Path': r['fp'], 'FL1-H MEF Values': r['m1'],
                          'FL2-H MEF Values': r['m2'], 'Gate Fraction': r['gf'], 'Clustering Channels': 'FL1-H'} for r in rows]).set_index('ID')
    np.random.seed(1234)
    with warnings.catch_warnings():
        warnings.simplefilter('ignore')
        bs, fx, mo = E.process_beads_table(btab, itab, base_dir=base, verbose=False, plot=False, full_output=True)
    E.add_beads_stats(btab, bs, mo)
    files = []
    for k in range(3):
        fn = 's%d.fcs' % k
        excelgen.sample_file(rng, i0, os.path.join(base, fn), n=int(rng.integers(450, 700)), floatdata=False)
        files.append(fn)
    excelgen.sample_file(rng, i0, os.path.join(base, 's_few.fcs'), n=380)
    excelgen.sample_file(rng, i0, os.path.join(base, 's_volt.fcs'), n=460, voltage=[str(777 + j) for j in range(D)])
    excelgen.sample_file(rng, i0, os.path.join(base, 's_amp.fcs'), n=460, amp_log=False)
    excelgen.sample_file(np.random.default_rng(110), i0, os.path.join(base, 's_volt0.fcs'), n=460, voltage=['0'] * D)
    excelgen.sample_file(rng, i0, os.path.join(base, 's_volt2.fcs'), n=460, fl_overrides={1: {'pnv': '999'}})
    excelgen.sample_file(rng, i0, os.path.join(base, 's_amp2.fcs'), n=460, fl_overrides={1: {'pne': '0,0'}})
    healthy = [dict(fp=files[0], u1='MEF', u2='a.u.', gf=0.5, beads='Bgood'),
               dict(fp=files[1], u1='RFI', u2='MEF', gf=0.85, beads='Bgood'),
               dict(fp=files[2], u1='MEF', u2=None, gf=0.3, beads='Bpartial'),
               dict(fp=files[0], u1='Channel', u2='rfi', gf=1.0, beads=None)]
    return dict(itab=itab, btab=btab, beads_samples=bs, fx=fx, mo=mo, healthy=healthy, base=base, idmap=idmap)


# spellings of a path at which no FCS file can be opened: a missing name, a missing folder, an existing folder, a
# path through a regular file, an over-long name (each is an OSError on open(); "file not found" for the workflow)
MISSING_PATHS = ['does_not_exist.fcs', 'no_such_dir/x.fcs', '.', 's0.fcs/inner.fcs', 'n' * 300 + '.fcs', 'does_not_exist.fcs']


def apply_fault(h, kind, variant=0):
    r = dict(h)
    if kind is None:
        return r
    if kind == 'missing-file':
        r['fp'] = MISSING_PATHS[variant % len(MISSING_PATHS)]
    elif kind == 'few-events':
        r['fp'] = 's_few.fcs'
    elif kind == 'fraction-neg':
        r['gf'] = -0.1
    elif kind == 'fraction-big':
        r['gf'] = 1.5
    elif kind == 'fraction-neg-tiny':
        r['gf'] = -1e-9          # outside [0,1] by less than one event's worth
    elif kind == 'fraction-big-tiny':
        r['gf'] = 1.0 + 1e-9
    elif kind == 'bad-units':
        r['u2'] = 'furlongs'
    elif kind.startswith('sample-other-'):
        r['u1'] = 'MEF'
        r['u2'] = None
        r['beads'] = 'Bgood'
        if kind == 'sample-other-instrument':
            r['iid'] = 'I1'
        else:
            r['fp'] = {'sample-other-amp': 's_amp.fcs', 'sample-other-voltage': 's_volt.fcs', 'sample-other-voltage-zero': 's_volt0.fcs',
                       'sample-other-amp-2nd': 's_amp2.fcs', 'sample-other-voltage-2nd': 's_volt2.fcs'}[kind]
            if kind.endswith('-2nd'):
                r['u2'] = 'MEF'
    else:
        r['u1'] = 'MEF'
        r['beads'] = {'calib-failed': 'Bfail', 'calib-nomef': 'Bnomef', 'other-instrument': 'Bother', 'other-amp': 'Bamp',
                      'other-voltage': 'Bvolt', 'calib-nochannel': 'Bpartial'}[kind]
        if kind == 'calib-nochannel':
            r['u2'] = 'MEF'
    return r


def table(rows, idmap=None):
    idmap = idmap or {}
    return pd.DataFrame([{'ID': 'R%d' % i, 'Instrument ID': r.get('iid', 'I0'), 'Beads ID': idmap.get(r['beads'], r['beads']), 'File Path': r['fp'],
                          'FL1-H Units': r['u1'], 'FL2-H Units': r['u2'], 'Gate Fraction': r['gf']}
                         for i, r in enumerate(rows)],
                        columns=['ID', 'Instrument ID', 'Beads ID', 'File Path', 'FL1-H Units', 'FL2-H Units', 'Gate Fraction']).set_index('ID')


def run(ctx):
    F = core.import_flowcal()
    E = F.excel_ui
    mon = monitors.Monitors(ctx, F, tag='excel-batch')
    mon.attach_alignment()
    rng0 = np.random.default_rng([ctx.seed, 11, 5])
    W = build_world(F, rng0, os.path.join(ctx.tmpdir, 'w'))
    base = W['base']
    single = {}

    W2 = build_world(F, np.random.default_rng([ctx.seed, 11, 5]), os.path.join(ctx.tmpdir, 'w2'), int_ids=True)

    def run_table(stab, Wx=None):
        Wx = Wx or W
        with warnings.catch_warnings():
            warnings.simplefilter('ignore')
            return core.attempt(E.process_samples_table, stab, Wx['itab'], mef_transform_fxns=Wx['fx'], beads_table=Wx['btab'],
                                base_dir=Wx['base'], verbose=False, plot=False)

    def single_ref(r, Wx=None):
        Wx = Wx or W
        key = repr(sorted(r.items(), key=lambda kv: kv[0])) + ('#int' if Wx is W2 else '')
        if key not in single:
            o = run_table(table([r], Wx['idmap']), Wx)
            single[key] = None if o.raised or isinstance(o.value['R0'], Exception) else fp(o.value['R0'], ident=False)
        return single[key]
    maxrows = 2 if ctx.tier == 'quick' else 3
    kinds = [None] + FAULTS
    tables = []
    for nrows in range(1, maxrows + 1):
        for assign in itertools.product(range(len(kinds)), repeat=nrows):
            tables.append(('ex', nrows) + assign)
    nrand = 12 if ctx.tier == 'quick' else 400
    tables += [('rnd', i) for i in range(nrand)]
    for cid, rng in ctx.cases(tables):
        mon.cid = cid
        if cid[0] == 'ex':
            assign = [kinds[i] for i in cid[2:]]
        else:
            assign = [kinds[int(rng.integers(len(kinds)))] if rng.random() < 0.6 else None for _ in range(int(rng.integers(4, 6)))]
        hs = [W['healthy'][int(rng.integers(len(W['healthy'])))] for _ in assign]
        # beads-related faults need a healthy row that reports MEF on FL1; all pool rows allow switching u1 to MEF
        rows = [apply_fault(h, k, int(rng.integers(len(MISSING_PATHS)))) for h, k in zip(hs, assign)]
        # every other random table (and the two-row exhaustive tables whose second row is healthy) in the world whose beads
        # are identified by numbers
        Wc = W2 if ((cid[0] == 'rnd' and cid[1] % 2 == 1) or (cid[0] == 'ex' and cid[1] == 2 and cid[-1] == 0 and cid[2] % 2 == 1)) else W
        if Wc is W2:
            ctx.counters['chk:numeric-beads-ids'] += 1
        stab = table(rows, Wc['idmap'])
        o = run_table(stab, Wc)
        ctx.counters['chk:no-escape'] += 1
        d = dict(assignment=[k or 'none' for k in assign], rows=rows)
        if not ctx.check(not o.raised, 'exception-escapes-batch', cid, exc=core.tb_str(o.exc)[-500:] if o.raised else None, **d):
            ctx.case_done(class_key=('table', len(rows), tuple(sorted(set(k or 'none' for k in assign)))), nontrivial=any(assign),
                          distinct_key=core.digest(cid))
            continue
        res = o.value
        ctx.check(list(res.keys()) == list(stab.index), 'result-keys-or-order', cid, got=list(res.keys()), want=list(stab.index))
        for i, (r, k) in enumerate(zip(rows, assign)):
            rid = 'R%d' % i
            if rid not in res:
                continue
            if k is None:
                ctx.counters['chk:isolation'] += 1
                ref = single_ref(r, Wc)
                if ref is None:
                    ctx.note('single-row reference failed (harness)')
                    continue
                g = res[rid]
                ok = not isinstance(g, Exception)
                ctx.check(ok and fp(g, ident=False) == ref, 'healthy-row-differs-from-single-row-run', cid, row=i,
                          error=str(g) if not ok else None, first_diff=None if not ok else diff(ref, fp(g, ident=False)), **d)
            else:
                ctx.counters['chk:error-row'] += 1
                ctx.check(isinstance(res[rid], E.ExcelUIException), 'fault-not-recorded-as-row-error:' + k, cid, row=i,
                          got=type(res[rid]).__name__, **d)
        # ---- rendering: ERROR note, empty statistics, no histogram rows for faulty rows -----
        st = stab.copy()
        with warnings.catch_warnings():
            warnings.simplefilter('ignore')
            oa = core.attempt(E.add_samples_stats, st, res)
        if ctx.check(not oa.raised, 'exception-escapes-statistics', cid, exc=core.tb_str(oa.exc)[-500:] if oa.raised else None, **d):
            statcols = [c for c in st.columns if c not in stab.columns and c != 'Analysis Notes']
            for i, k in enumerate(assign):
                rid = 'R%d' % i
                if k is not None and isinstance(res.get(rid), Exception):
                    note = st.at[rid, 'Analysis Notes']
                    empty = all(pd.isnull(st.at[rid, c]) or st.at[rid, c] == '' for c in statcols)
                    ctx.check(isinstance(note, str) and note.startswith('ERROR:') and empty, 'error-row-rendering', cid, row=i,
                              note=note, nonempty=[c for c in statcols if not (pd.isnull(st.at[rid, c]) or st.at[rid, c] == '')][:4])
                elif k is None:
                    ctx.check(not str(st.at[rid, 'Analysis Notes']).startswith('ERROR'), 'healthy-row-rendered-as-error', cid, row=i)
            # the same results rendered into the table with its rows in another order: every cell stays under its own row
            # identifier (results are addressed by identifier, not by position)
            if len(rows) >= 2:
                st2 = stab.iloc[::-1].copy()
                with warnings.catch_warnings():
                    warnings.simplefilter('ignore')
                    ob = core.attempt(E.add_samples_stats, st2, res)
                if ctx.check(not ob.raised, 'exception-escapes-statistics', cid, reordered=True,
                             exc=core.tb_str(ob.exc)[-300:] if ob.raised else None):
                    def same_cell(a, b):
                        return (pd.isnull(a) and pd.isnull(b)) if (pd.isnull(a) or pd.isnull(b)) else (a == b or str(a) == str(b))
                    bad = [(rid, c) for rid in st.index for c in st.columns
                           if c in st2.columns and not same_cell(st.at[rid, c], st2.at[rid, c])]
                    ctx.check(not bad and list(st2.index) == list(stab.index[::-1]), 'rendering-depends-on-row-order', cid,
                              first=[(r_, c_, repr(st.at[r_, c_]), repr(st2.at[r_, c_])) for r_, c_ in bad[:3]], **d)
            with warnings.catch_warnings():
                warnings.simplefilter('ignore')
                oh = core.attempt(E.generate_histograms_table, st, res)
            if ctx.check(not oh.raised, 'exception-escapes-histograms', cid, exc=core.tb_str(oh.exc)[-500:] if oh.raised else None):
                bad = set('R%d' % i for i, k in enumerate(assign) if isinstance(res.get('R%d' % i), Exception))
                ctx.check(not (set(ix[0] for ix in oh.value.index) & bad), 'histogram-rows-for-faulty-samples', cid)
        # row permutation: same per-row results
        if len(rows) >= 2 and (cid[0] == 'rnd' or cid[-1] == 0):
            perm = [int(x) for x in rng.permutation(len(rows))]
            o2 = run_table(table([rows[p] for p in perm], Wc['idmap']), Wc)
            if ctx.check(not o2.raised, 'exception-escapes-batch', cid, permuted=True):
                ok = True
                for newi, p in enumerate(perm):
                    a, b = res.get('R%d' % p), o2.value.get('R%d' % newi)
                    ok = ok and ((isinstance(a, Exception) and isinstance(b, Exception) and str(a) == str(b)) or
                                 (not isinstance(a, Exception) and not isinstance(b, Exception) and fp(a, ident=False) == fp(b, ident=False)))
                ctx.check(ok, 'result-depends-on-row-order', cid, perm=perm, **d)
        ctx.case_done(class_key=('table', len(rows), tuple(sorted(set(k or 'none' for k in assign)))), nontrivial=any(assign),
                      distinct_key=core.digest(cid, rows), sample=d if cid in (('ex', 2, 3, 0), ('rnd', 0)) else None)
    # ---- empty tables -----------------------------------------------------------------------
    if ctx.shard == 0 or ctx.only_case is not None:
        mon.cid = ('empty',)
        o = run_table(table([]))
        ctx.check((not o.raised) and len(o.value) == 0, 'empty-table', ('empty',), exc=core.exc_str(o.exc) if o.raised else None)
        ob = core.attempt(E.process_beads_table, W['btab'].iloc[0:0], W['itab'], base_dir=base, verbose=False, full_output=True)
        ctx.check((not ob.raised) and all(len(x) == 0 for x in ob.value), 'empty-table', ('empty', 'beads'))
        ctx.case_done(class_key=('empty',), nontrivial=False)
    # ---- one LARGE file (more than 10^5 events) listed in several consecutive rows, healthy and faulty: every healthy row still
    # yields what it yields alone (no reuse of the previous row's partly processed data)
    if ctx.shard == (1 % ctx.nshards) or ctx.only_case is not None:
        cid = ('big-file-rows', 0)
        mon.cid = cid
        bigf = os.path.join(base, 's_big.fcs')
        if not os.path.exists(bigf):
            excelgen.sample_file(np.random.default_rng([ctx.seed, 11, 99]), dict(ID='I0', fsc='FSC-H', ssc='SSC-H', fl=['FL1-H', 'FL2-H'], time='Time'),
                                 bigf, n=120001)
        rows = [dict(fp='s_big.fcs', u1='RFI', u2='a.u.', gf=0.5, beads=None),
                dict(fp='s_big.fcs', u1='RFI', u2='furlongs', gf=0.5, beads=None),
                dict(fp='s_big.fcs', u1='MEF', u2='RFI', gf=0.3, beads='Bgood'),
                dict(fp='does_not_exist.fcs', u1='RFI', u2=None, gf=0.5, beads=None),
                dict(fp='s_big.fcs', u1='a.u.', u2='MEF', gf=0.85, beads='Bgood')]
        o = run_table(table(rows))
        ctx.counters['chk:no-escape'] += 1
        if ctx.check(not o.raised, 'exception-escapes-batch', cid, exc=core.tb_str(o.exc)[-400:] if o.raised else None):
            for i, r in enumerate(rows):
                g = o.value.get('R%d' % i)
                if i in (1, 3):
                    ctx.counters['chk:error-row'] += 1
                    ctx.check(isinstance(g, E.ExcelUIException), 'fault-not-recorded-as-row-error:' + ('bad-units' if i == 1 else 'missing-file'), cid, row=i)
                else:
                    ctx.counters['chk:isolation'] += 1
                    ref = single_ref(r)
                    ctx.check(ref is not None and not isinstance(g, Exception) and fp(g, ident=False) == ref,
                              'healthy-row-differs-from-single-row-run', cid, row=i, big_file=True,
                              error=str(g) if isinstance(g, Exception) else None)
        ctx.case_done(class_key=('big-file-rows',), nontrivial=True, distinct_key=core.digest(cid))
    # ---- histories on the file system: a row's file disappears, appears or is replaced between two batches of one process
    if ctx.shard == 0 or ctx.only_case is not None:
        import shutil as _sh
        cid = ('fs-history', 0)
        mon.cid = cid
        h0 = dict(W['healthy'][3])           # no beads involved
        tmpf = os.path.join(base, 's_tmp.fcs')
        row = dict(h0, fp='s_tmp.fcs')
        steps = [('absent', None), ('present', W['healthy'][0]['fp']), ('absent', None), ('replaced', W['healthy'][1]['fp']), ('present', W['healthy'][0]['fp'])]
        for what, src in steps:
            if os.path.exists(tmpf):
                os.remove(tmpf)
            if src is not None:
                _sh.copyfile(os.path.join(base, src), tmpf)
            o = run_table(table([row, dict(h0)]))
            ctx.counters['chk:no-escape'] += 1
            if not ctx.check(not o.raised, 'exception-escapes-batch', cid, step=what, exc=core.tb_str(o.exc)[-300:] if o.raised else None):
                continue
            g = o.value['R0']
            ctx.counters['chk:error-row'] += 1
            if src is None:
                ctx.check(isinstance(g, E.ExcelUIException), 'fault-not-recorded-as-row-error:missing-file', cid, step=what,
                          history=[w for w, _ in steps], got=type(g).__name__)
            else:
                oref = run_table(table([dict(h0, fp=src)]))          # the same bytes under their own name
                r_ = None if oref.raised else oref.value['R0']
                same_ = (not isinstance(g, Exception)) and r_ is not None and not isinstance(r_, Exception) and \
                    np.asarray(g).shape == np.asarray(r_).shape and np.asarray(g).tobytes() == np.asarray(r_).tobytes() and \
                    dict(g.text) == dict(r_.text) and \
                    [list(map(float, g.range(p_))) for p_ in range(g.shape[1])] == [list(map(float, r_.range(p_))) for p_ in range(r_.shape[1])]
                ctx.check(same_, 'row-result-depends-on-earlier-batches', cid, step=what, history=[w for w, _ in steps],
                          error=str(g) if isinstance(g, Exception) else None)
        if os.path.exists(tmpf):
            os.remove(tmpf)
        ctx.case_done(class_key=('fs-history',), nontrivial=True, distinct_key=core.digest(cid))
    # ---- the same batch WITHOUT the optional beads table ("no checking will be performed" of bead settings): the faults that
    # do not depend on that table are still row errors, and a row whose calibration is missing is one of them
    indep = [None, 'missing-file', 'few-events', 'fraction-neg', 'fraction-big', 'bad-units', 'calib-failed', 'calib-nomef', 'calib-nochannel']
    nb_tables = [('nobeads', a, b) for a in range(len(indep)) for b in range(len(indep))
                 if ctx.tier == 'thorough' or b in (0, (a + 3) % len(indep))]
    for cid, rng in ctx.cases(nb_tables):
        mon.cid = cid
        assign = [indep[cid[1]], indep[cid[2]]]
        hs = [W['healthy'][int(rng.integers(len(W['healthy'])))] for _ in assign]
        rows = [apply_fault(h, k, int(rng.integers(len(MISSING_PATHS)))) for h, k in zip(hs, assign)]
        stab = table(rows)
        with warnings.catch_warnings():
            warnings.simplefilter('ignore')
            o = core.attempt(E.process_samples_table, stab, W['itab'], mef_transform_fxns=W['fx'], base_dir=base, verbose=False, plot=False)
        ctx.counters['chk:no-escape'] += 1
        d = dict(assignment=[k or 'none' for k in assign], beads_table='omitted')
        if ctx.check(not o.raised, 'exception-escapes-batch', cid, exc=core.tb_str(o.exc)[-500:] if o.raised else None, **d):
            res = o.value
            ctx.check(list(res.keys()) == list(stab.index), 'result-keys-or-order', cid, got=list(res.keys()), want=list(stab.index))
            for i, (r, k) in enumerate(zip(rows, assign)):
                rid = 'R%d' % i
                if rid not in res:
                    continue
                if k is None:
                    ctx.counters['chk:isolation'] += 1
                    ref = single_ref(r)
                    g = res[rid]
                    if ref is not None:
                        ctx.check(not isinstance(g, Exception) and fp(g, ident=False) == ref, 'healthy-row-differs-from-single-row-run', cid,
                                  row=i, error=str(g) if isinstance(g, Exception) else None, **d)
                else:
                    ctx.counters['chk:error-row'] += 1
                    ctx.check(isinstance(res[rid], E.ExcelUIException), 'fault-not-recorded-as-row-error:' + k, cid, row=i,
                              got=type(res[rid]).__name__, **d)
        ctx.case_done(class_key=('table-without-beads-table', tuple(sorted(set(k or 'none' for k in assign)))), nontrivial=any(assign),
                      distinct_key=core.digest(cid))
    # ---- bead tables ---------------------------------------------------------------------------
    bk = [None, 'missing-file', 'few-events', 'fraction-neg', 'fraction-big', 'unequal-mef']
    btabs = [('bt', a, b) for a in range(len(bk)) for b in range(len(bk))] if ctx.tier == 'thorough' else \
        [('bt', a, b) for a in range(len(bk)) for b in (0, (a + 1) % len(bk))]
    bref = {}
    for cid, rng in ctx.cases(btabs):
        mon.cid = cid
        assign = [bk[cid[1]], bk[cid[2]]]
        rows = []
        for i, k in enumerate(assign):
            r = dict(ID='Q%d' % i, iid='I0', fp='b_good.fcs', m1='800, 5000, 30000', m2='1600, 10000, 60000', gf=0.5)
            if k == 'missing-file':
                r['fp'] = ['nope.fcs', '.', 'b_good.fcs/x.fcs', 'nope.fcs'][int(rng.integers(4))]
            elif k == 'few-events':
                r['fp'] = 'b_few.fcs'
            elif k == 'fraction-neg':
                r['gf'] = -0.2
            elif k == 'fraction-big':
                r['gf'] = 1.01
            elif k == 'unequal-mef':
                r['m2'] = '1600, 10000'
            rows.append(r)
        bt = pd.DataFrame([{'ID': r['ID'], 'Instrument ID': r['iid'], 'File Path': r['fp'], 'FL1-H MEF Values': r['m1'],
                            'FL2-H MEF Values': r['m2'], 'Gate Fraction': r['gf'], 'Clustering Channels': 'FL1-H'} for r in rows]).set_index('ID')

        def run_beads(t):
            np.random.seed(99)
            with warnings.catch_warnings():
                warnings.simplefilter('ignore')
                return core.attempt(E.process_beads_table, t, W['itab'], base_dir=base, verbose=False, plot=False, full_output=True)
        o = run_beads(bt)
        ctx.counters['chk:beads-table'] += 1
        d = dict(assignment=[k or 'none' for k in assign])
        if ctx.check(not o.raised, 'exception-escapes-batch:beads', cid, exc=core.tb_str(o.exc)[-500:] if o.raised else None, **d):
            bs, fx, mo = o.value
            ctx.check(list(bs.keys()) == list(bt.index) == list(fx.keys()) == list(mo.keys()), 'result-keys-or-order:beads', cid)
            for i, k in enumerate(assign):
                rid = 'Q%d' % i
                if k is None:
                    ok = not isinstance(bs[rid], Exception) and fx[rid] is not None
                    ctx.check(ok, 'healthy-beads-row-failed', cid, row=i, **d)
                    if ok and i == 1:
                        # the second row processed alone (same seed position is not reproducible: compare gated sample only)
                        if 'alone' not in bref:
                            oo = run_beads(bt.loc[[rid]])
                            bref['alone'] = None if oo.raised else fp(oo.value[0][rid], ident=False)
                        if bref['alone'] is not None:
                            ctx.check(fp(bs[rid], ident=False) == bref['alone'], 'healthy-beads-row-differs-from-single-row-run', cid, **d)
                else:
                    ctx.check(isinstance(bs[rid], E.ExcelUIException) and fx[rid] is None and mo[rid] is None,
                              'fault-not-recorded-as-row-error:beads:' + k, cid, row=i, got=type(bs[rid]).__name__, **d)
            bt2 = bt.copy()
            oa = core.attempt(E.add_beads_stats, bt2, bs, mo)
            if ctx.check(not oa.raised, 'exception-escapes-statistics:beads', cid, exc=core.tb_str(oa.exc)[-400:] if oa.raised else None):
                for i, k in enumerate(assign):
                    rid = 'Q%d' % i
                    if k is not None and isinstance(bs[rid], Exception):
                        newc = [c for c in bt2.columns if c not in bt.columns and c != 'Analysis Notes']
                        empty = all(pd.isnull(bt2.at[rid, c]) or bt2.at[rid, c] == '' for c in newc)
                        ctx.check(str(bt2.at[rid, 'Analysis Notes']).startswith('ERROR:') and empty, 'error-row-rendering:beads', cid, row=i,
                                  note=bt2.at[rid, 'Analysis Notes'])
        ctx.case_done(class_key=('beads-table', tuple(k or 'none' for k in assign)), nontrivial=any(assign), distinct_key=core.digest(cid))
    mon.detach()
