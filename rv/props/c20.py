"""C20 - a sample survives copying, viewing and pickling in any analysis state.

Shape B: all operation sequences of length <= 3 over {slice channels, slice events, to RFI, to MEF, gate} are executed on
generated samples; in every reached state each of {copy(), copy.copy, deepcopy, view(), pickle protocols 0..5} must give
an equal sample (values, kind+width, every metadata view, class), independent of the original afterwards (a view may
share the event buffer only).  FCSFile equality / hashing on reloaded and minimally changed files.
"""
import copy
import itertools
import os
import pickle

import numpy as np

from rv import core, zoo, fcsgen
from rv.fingerprint import fp, diff

ANCHORS = ['FCSData.__reduce__', 'FCSData.__setstate__', 'FCSData.__array_finalize__', 'FCSFile.__eq__', 'FCSFile.__hash__']      # functions the property is anchored in: never entered => inconclusive
LEVEL = 'exploration'
LEVEL_TEXT = 'State-space walk: all 156 operation sequences of length <= 3 over {slice channels, slice events, to RFI, to MEF, gate} x 10 duplication methods, equality by fingerprint and independence by mutating either side; FCSFile equality/hash on reloaded and minimally changed files. Exhaustive over the sequences, exploration over samples.'
TECHNIQUE = 'state-space walk (all op sequences <= 3) with fingerprint equality + mutate-one-side independence checker'
RULE = ('samples {integer big/little endian, float32/64, with/without optional metadata, zero-event} x ALL sequences of '
        '<= 3 operations over {slice channels, slice events, to RFI, to MEF, gate} (156, exhaustive) x {copy, copy.copy, '
        'deepcopy, view, pickle 0..5}; non-trivial = state reached by >= 1 operation; distinct = (sample, sequence, duplication)'
        ' Also: the generic transformation with a NumPy function as an analysis state, selections that leave no event.')
ASSUMPTIONS = ['byte order is not part of equality (pickling legitimately normalises it); kind and itemsize are']
MIN_CHECKS = {'quick': 12000, 'thorough': 250000}
EXHAUSTIVE = {'quick': True, 'thorough': True}
REQUIRED_COUNTERS = ['chk:equal', 'chk:independent', 'chk:file-eq']

OPS = ('chan', 'rows', 'rfi', 'mef', 'gate', 'xform')
DUPS = ['copy()', 'copy.copy', 'deepcopy', 'view()'] + ['pickle%d' % p for p in range(6)]


def apply_op(F, rng, s, op):
    D = s.shape[1]
    if op == 'chan':
        k = int(rng.integers(1, D + 1))
        pos = [int(x) for x in rng.permutation(D)[:k]]
        if rng.random() < 0.3:
            pos = pos + [pos[0]]            # the same channel twice (duplicate names are a reachable state)
        uniq = len(set(s.channels)) == len(s.channels)
        key = [s.channels[p] if (uniq and rng.random() < 0.5) else p for p in pos]
        return s[:, key] if rng.random() < 0.7 or k == 1 else s[:, slice(0, max(1, D - 1))]
    if op == 'rows':
        N = s.shape[0]
        r = rng.random()
        if r < 0.08:
            return s[:0] if rng.random() < 0.5 else s[np.zeros(N, dtype=bool)]      # no event left
        if r < 0.4:
            return s[int(rng.integers(0, N // 2 + 1)):]
        if r < 0.7:
            return s[rng.random(N) < 0.7]
        return s[::2]
    if op == 'rfi':
        if rng.random() < 0.5:
            return F.transform.to_rfi(s)
        k = int(rng.integers(1, D + 1))
        return F.transform.to_rfi(s, [int(x) for x in np.sort(rng.permutation(D)[:k])])     # some channels only, by position
    if op == 'mef':
        k = int(rng.integers(1, D + 1))
        pos = [int(x) for x in rng.permutation(D)[:k]]
        crv = [zoo.make_curve(1.0 + 0.03 * i, 1.0 + i) for i in range(k)]
        if len(set(s.channels)) == len(s.channels) and rng.random() < 0.5:
            return F.transform.to_mef(s, [s.channels[p] for p in pos], crv, [s.channels[p] for p in pos])
        return F.transform.to_mef(s, pos, crv, pos)
    if op == 'xform':
        # the generic transformation with a NumPy function: range limits go through the same function and may be
        # held in another container type than after loading
        k = int(rng.integers(1, D + 1))
        pos = [int(x) for x in np.sort(rng.permutation(D)[:k])]
        fn = [np.sqrt, np.log1p, np.abs, (lambda x: x * 2.0), np.cbrt][int(rng.integers(5))]
        with np.errstate(all='ignore'):
            return F.transform.transform(s, pos, fn)
    if op == 'gate':
        if rng.random() < 0.5 or s.shape[0] < 4:
            return F.gate.high_low(s)
        return F.gate.start_end(s, 1, 1)
    raise ValueError(op)


def dup(s, how):
    if how == 'copy()':
        return s.copy()
    if how == 'copy.copy':
        return copy.copy(s)
    if how == 'deepcopy':
        return copy.deepcopy(s)
    if how == 'view()':
        return s.view()
    return pickle.loads(pickle.dumps(s, protocol=int(how[6:])))


def used(s):
    """a sample every attribute of which has been read before (an object in ordinary use, nothing left to initialise)."""
    fp(s, ident=False)
    return s


def mutate_and_compare(ctx, cid, a, b, how, shares_buffer, d, untouched=False):
    """mutate a, check b unchanged; a and b are equal samples.  untouched: nothing is read from b before a is changed
    (the reference is a's own fingerprint before the change): independence must not wait for b's first use."""
    ok = True
    before = fp(a if untouched else b, ident=False)
    if untouched:
        # all changes to a first, then the first look at b
        how += ':before-first-read'
        if a.size and not shares_buffer and np.asarray(a).flags.writeable:
            a[0, 0] = a[0, 0] + 1
        r = a.range(0)
        if r is not None:
            r[0] = -999.5
        a.text['RV-NEW-KEY'] = 'x'
        a.analysis['RV-NEW-KEY'] = 'y'
        return ctx.check(fp(b, ident=False) == before, 'independent:shared-until-first-read', cid, how=how,
                         first_diff=diff(before, fp(b, ident=False)), **d)
    if a.size and not shares_buffer:
        a_flat = np.asarray(a)
        if a_flat.flags.writeable:
            a[0, 0] = a[0, 0] + 1
            ok &= ctx.check(fp(b, ident=False) == before, 'independent:events-shared', cid, how=how, **d)
    r = a.range(0)
    if r is not None:
        r[0] = -999.5
        ok &= ctx.check(fp(b, ident=False) == before, 'independent:range-shared', cid, how=how, **d)
    a.text['RV-NEW-KEY'] = 'x'
    a.analysis['RV-NEW-KEY'] = 'y'
    ok &= ctx.check(fp(b, ident=False) == before, 'independent:keywords-shared', cid, how=how, **d)
    return ok


def run(ctx):
    F = core.import_flowcal()
    path = os.path.join(ctx.tmpdir, 'c20.fcs')
    seqs = [()] + [q for k in (1, 2, 3) for q in itertools.product(OPS, repeat=k)]
    nsamples = 6 if ctx.tier == 'quick' else 150
    ids = [('st', si, qi) for si in range(nsamples) for qi in range(len(seqs))]
    # a large sample (tens of thousands of events, many channels) in the states reached by at most one operation
    BIG = 1000
    ids += [('st', BIG + b, qi) for b in range(1 if ctx.tier == 'quick' else 6) for qi in range(len(seqs)) if len(seqs[qi]) <= 1]
    cache = {}
    for cid, rng in ctx.cases(ids):
        _, si, qi = cid
        srng = np.random.default_rng([ctx.seed, 20, si])
        kind = ('int-be', 'int-le', 'float32', 'float64', 'int-nometa', 'int-handle')[si % 6]
        if si >= BIG:
            kind = 'int-be' if si % 2 == 0 else 'float32'
        if kind.startswith('int'):
            spec = zoo.int_spec(srng, n=int(srng.integers(6, 30)) if si < BIG else int(srng.choice([65537, 300001])),
                                d=int(srng.integers(2, 5)) if si < BIG else 8)
            spec['byteord'] = '4,3,2,1' if kind != 'int-le' else '1,2,3,4'
            if kind == 'int-nometa':
                spec['png'] = spec['pnv'] = spec['pns'] = None
                spec['extra'] = []
            if si % 7 == 6:
                spec['analysis'] = [('AKEY', 'aval'), ('GATE', '1,2')]
        else:
            spec = zoo.float_spec(srng, n=int(srng.integers(6, 30)) if si < BIG else int(srng.choice([65537, 100001])),
                                  d=int(srng.integers(2, 5)) if si < BIG else 8, dt='F' if kind == 'float32' else 'D')
        if kind == 'int-handle':
            # a sample loaded from an open file object (infile is documented as "str or file-like")
            raw_, _lay = fcsgen.build(spec)
            hpath = os.path.join(ctx.tmpdir, 'c20_handle.fcs')
            with open(hpath, 'wb') as fh_:
                fh_.write(raw_)
            handle = open(hpath, 'rb')
            s = F.io.FCSData(handle)
        else:
            handle = None
            s = zoo.write_and_load(F, spec, path)
        seq = seqs[qi]
        ok_state = True
        for op in seq:
            o = core.attempt(apply_op, F, rng, s, op)
            if o.raised or not hasattr(o.value, 'channels') or o.value.ndim != 2:
                ctx.note('state not reachable: %s (%s)' % ('>'.join(seq), core.exc_str(o.exc) if o.raised else 'non-2D'))
                ok_state = False
                break
            s = o.value
        if not ok_state:
            continue
        d = dict(sample=kind, sequence='>'.join(seq) or 'loaded', shape=list(s.shape), dtype=str(s.dtype))
        ref = fp(s, ident=False)
        for how in DUPS:
            if handle is not None and how.startswith('pickle'):
                continue            # an open file object cannot be pickled by anyone: not part of the statement
            o = core.attempt(dup, s, how)
            ctx.counters['chk:equal'] += 1
            if not ctx.check(not o.raised, 'duplication-failed', cid, how=how, exc=core.exc_str(o.exc) if o.raised else None, **d):
                continue
            c = o.value
            f2 = fp(c, ident=False)
            ctx.check(f2 == ref, 'not-equal-after-duplication', cid, how=how, first_diff=diff(ref, f2), **d)
            ctx.check(type(c) is type(s), 'class-changed', cid, how=how, got=type(c).__name__, **d)
            ctx.check(fp(s, ident=False) == ref, 'original-changed-by-duplication', cid, how=how, **d)
            # independence, both directions, on fresh duplicates
            ctx.counters['chk:independent'] += 1
            shares = how == 'view()'
            c1 = dup(s, how)
            s1 = s.copy() if not shares else s
            if shares:
                # view: buffer may be shared, metadata may not.  work on a private base
                base = s.copy()
                c1 = dup(base, how)
                mutate_and_compare(ctx, cid, c1, base, how + ':dup-mutated', True, d)
                base = s.copy()
                c1 = dup(base, how)
                mutate_and_compare(ctx, cid, base, c1, how + ':orig-mutated', True, d)
                base = used(s.copy())
                c1 = dup(base, how)
                mutate_and_compare(ctx, cid, base, c1, how + ':orig-mutated', True, d, untouched=True)
            else:
                base = s.copy()
                c1 = dup(base, how)
                mutate_and_compare(ctx, cid, c1, base, how + ':dup-mutated', False, d)
                base = used(s.copy())
                c1 = dup(base, how)
                mutate_and_compare(ctx, cid, base, c1, how + ':orig-mutated', False, d, untouched=True)
                base = used(s.copy())
                c1 = dup(base, how)
                mutate_and_compare(ctx, cid, c1, base, how + ':dup-mutated', False, d, untouched=True)
                base = s.copy()
                c1 = dup(base, how)
                mutate_and_compare(ctx, cid, base, c1, how + ':orig-mutated', False, d)
            ctx.case_done(class_key=(kind, len(seq), how), nontrivial=len(seq) >= 1,
                          distinct_key=core.digest(si, qi, how), sample=dict(d, how=how) if (qi == 37 and how == 'pickle2') else None)
    # ---- file-level equality -----------------------------------------------------------
    nf = 60 if ctx.tier == 'quick' else 10000
    p2 = os.path.join(ctx.tmpdir, 'c20b.fcs')
    for cid, rng in ctx.cases([('file', i) for i in range(nf)]):
        bigf = cid[1] % 30 == 4          # a file of tens of thousands of events: the differing event is one of the last ones
        spec = zoo.int_spec(rng, n=int(rng.integers(1, 20)) if not bigf else int(rng.choice([70001, 100000, 150000])),
                            d=int(rng.integers(1, 5)) if not bigf else 2) if (rng.random() < 0.6 or bigf) else \
            zoo.float_spec(rng, n=int(rng.integers(1, 20)), d=int(rng.integers(1, 5)))
        raw, _ = fcsgen.build(spec)
        open(path, 'wb').write(raw)
        a, b = F.io.FCSFile(path), F.io.FCSFile(path)
        ctx.counters['chk:file-eq'] += 1
        ctx.check(a == b and not (a != b) and hash(a) == hash(b), 'file:two-loads-unequal', cid)
        da, db = F.io.FCSData(path), F.io.FCSData(path)
        ctx.check(fp(da, ident=False) == fp(db, ident=False), 'file:two-loads-unequal:FCSData', cid)
        # one event changed
        sp2 = dict(spec, events=[list(r) for r in spec['events']])
        i, j = int(rng.integers(len(sp2['events']))), int(rng.integers(len(spec['widths'])))
        if bigf:
            i = len(sp2['events']) - 1 - int(rng.integers(0, 3000))
        v = sp2['events'][i][j]
        sp2['events'][i][j] = (v + 1) if spec['datatype'] != 'I' else ((v + 1) % spec['ranges'][j])
        if sp2['events'][i][j] != v:
            raw2, _ = fcsgen.build(sp2)
            open(path, 'wb').write(raw2)       # same path: infile equal, only the event differs
            c = F.io.FCSFile(path)
            ctx.check(a != c and not (a == c), 'file:different-event-equal', cid)
        # one keyword changed
        sp3 = dict(spec, extra=list(spec.get('extra', [])) + [('RV-EXTRA', 'k%d' % cid[1])])
        raw3, _ = fcsgen.build(sp3)
        open(path, 'wb').write(raw3)
        e = F.io.FCSFile(path)
        ctx.check(a != e and not (a == e), 'file:different-keyword-equal', cid)
        # same keyword set, one value changed (same length, so nothing else in the file moves)
        sp4 = dict(spec, extra=list(spec.get('extra', [])) + [('RV-EXTRA', 'q%d' % cid[1])])
        raw4, _ = fcsgen.build(sp4)
        open(path, 'wb').write(raw4)
        g = F.io.FCSFile(path)
        ctx.check(e != g and not (e == g), 'file:different-keyword-value-equal', cid)
        # files differing only in one ANALYSIS keyword value
        if spec['version'] != 'FCS2.0' or True:
            spa = dict(spec, analysis=[('GATE1', 'on'), ('N', '%d' % cid[1])])
            spb = dict(spec, analysis=[('GATE1', 'of'), ('N', '%d' % cid[1])])
            open(path, 'wb').write(fcsgen.build(spa)[0])
            fa = F.io.FCSFile(path)
            open(path, 'wb').write(fcsgen.build(spb)[0])
            fb = F.io.FCSFile(path)
            if fa.analysis and fb.analysis:
                ctx.check(fa != fb and not (fa == fb), 'file:different-analysis-keyword-equal', cid)
                open(path, 'wb').write(fcsgen.build(spa)[0])
                ctx.check(F.io.FCSFile(path) == fa and hash(F.io.FCSFile(path)) == hash(fa), 'file:two-loads-unequal', cid)
        open(path, 'wb').write(raw)
        ctx.check(F.io.FCSFile(path) == a, 'file:two-loads-unequal', cid)
        ctx.check((a == 3) is False and (a != 'x') is True, 'file:comparison-with-other-types', cid)
        ctx.case_done(class_key=('file-eq', spec['datatype']), nontrivial=True, distinct_key=core.digest(raw))
