"""C09 - fitting the bead model recovers the law that generated the beads.

Monitor: contract on mef.fit_beads_autofluorescence: structural identities for EVERY fit (odd, zero at zero, increasing
for positive slope, non-negative autofluorescence, bead model = standard curve - autofluorescence), evaluated by
rv.monitors.oracle_fit_structure; driver adds the recovery clause on exactly generated pairs and the refusals.
"""
import numpy as np

from rv import core, monitors

ANCHORS = ['fit_beads_autofluorescence']      # functions the property is anchored in: never entered => inconclusive
LEVEL = 'exploration'
LEVEL_TEXT = 'Contract on the real fit: structural identities judged for every fit (direct, C02 and Excel workloads; a fitted slope <= 0 makes the curve nan at zero: listed known finding fit-nonpositive-slope; fits whose e^b is not representable are counted only) and recovery within 5% on exactly generated bead sets over a lattice + random draws of (m, b, autofluorescence, ladder). Exploration.'
TECHNIQUE = 'runtime contract on the bead-model fit (structural identities) + recovery oracle on exactly generated bead sets'
RULE = ('lattice + random draws of slope m in [0.85,1.25] x intercept b in [0,7] x autofluorescence in {0} U [1,5000] x '
        'bead sets of 5..10 populations cut from realistic MEF ladders (blank included when autofluorescence > 0) with >=5 '
        'populations above 3x autofluorescence (recovery); arbitrary positive pairs (>=3) for the structural identities; '
        'non-trivial = autofluorescence > 0 or a blank population present; distinct = digest(pairs)'
        ' Also: both curves evaluated on integer arrays/lists/scalars and far below the beads (down to 1e-120).')
ASSUMPTIONS = ['recovery judged on a 60-point geometric grid over the span of the non-blank beads, tolerance 5%']
MIN_CHECKS = {'quick': 15000, 'thorough': 400000}
REQUIRED_COUNTERS = ['chk:fit', 'chk:recovery', 'chk:refusal']

LADDERS = [
    [0, 646, 1704, 4827, 15991, 47609, 135896, 273006],                 # Spherotech RCP-30-5A MEFL
    [0, 1614, 4035, 12025, 31896, 95682, 353225, 1077421],              # MEPE
    [0, 792, 2079, 6588, 16471, 47497, 137049, 271647],                 # MECY
    [0, 4700, 11000, 29000, 77000, 220000, 520000, 1200000, 2600000, 5200000],
    [0, 58, 190, 640, 2100, 7300, 26000, 88000, 300000],
]


def bead_set(rng, auto):
    lad = LADDERS[int(rng.integers(len(LADDERS)))]
    nonblank = lad[1:]
    k = int(rng.integers(5, min(10, len(nonblank)) + 1))
    start = int(rng.integers(0, len(nonblank) - k + 1))
    mef = nonblank[start:start + k]
    # at least five populations above 3x autofluorescence
    if sum(1 for v in mef if v > 3 * auto) < 5:
        return None
    if auto > 0 and rng.random() < 0.6 and len(mef) < 10:
        mef = [0] + mef
    return [float(v) for v in mef]


def run(ctx):
    F = core.import_flowcal()
    mon = monitors.Monitors(ctx, F)
    mon.attach_fit()
    mon.judge_nonpositive_slope = True      # the literal 'zero at zero for every fit whatsoever' is this property's clause
    fit = F.mef.fit_beads_autofluorescence
    n = 1200 if ctx.tier == 'quick' else 100000
    ms = np.linspace(0.85, 1.25, 9)
    bs = np.linspace(0, 7, 8)
    autos = [0, 1, 10, 100, 1000, 5000]
    lattice = [(m, b, a) for m in ms for b in bs for a in autos]
    for cid, rng in ctx.cases([('rec', i) for i in range(n)]):
        mon.cid = cid
        if cid[1] < len(lattice):
            m, b, auto = lattice[cid[1]]
        else:
            m, b = float(rng.uniform(0.85, 1.25)), float(rng.uniform(0, 7))
            auto = 0.0 if rng.random() < 0.25 else float(np.exp(rng.uniform(0, np.log(5000))))
        mef = None
        for _ in range(20):
            mef = bead_set(rng, auto)
            if mef is not None:
                break
        if mef is None:
            ctx.counters['no_bead_set'] += 1
            continue
        mef = np.array(mef)
        rfi = ((mef + auto) / np.exp(b)) ** (1.0 / m)
        as_list = rng.random() < 0.3
        o = core.attempt(fit, rfi.tolist() if as_list else rfi.copy(), mef.tolist() if as_list else mef.copy())
        d = dict(m=float(m), b=float(b), auto=float(auto), mef=mef.tolist())
        if ctx.check(not o.raised, 'fit:valid-call-refused', cid, exc=core.exc_str(o.exc) if o.raised else None, **d):
            std_crv = o.value[0]
            nb = rfi[mef > 0]
            x = np.geomspace(nb.min(), nb.max(), 60)
            rel = np.abs(std_crv(x) / (np.exp(b) * x ** m) - 1)
            ctx.counters['chk:recovery'] += 1
            ctx.check(float(rel.max()) <= 0.05, 'recovery:off-by-more-than-5pct', cid, worst=float(rel.max()),
                      params=[float(v) for v in o.value[2]], **d)
            key = 'worst_recovery_error_ppm(shard %d)' % ctx.shard
            ctx.notes[key] = max(ctx.notes.get(key, 0), int(rel.max() * 1e6))
        ctx.case_done(class_key=('recovery', 'auto0' if auto == 0 else 'auto', 'blank' if mef[0] == 0 else 'noblank', len(mef)),
                      nontrivial=auto > 0 or mef[0] == 0, distinct_key=core.digest(rfi, mef),
                      sample=dict(d, rfi=rfi.tolist()) if cid[1] in (5, 300) else None)
    # ---- arbitrary positive pairs: structure only -------------------------------
    for cid, rng in ctx.cases([('arb', i) for i in range(n // 2)]):
        mon.cid = cid
        k = int(rng.integers(3, 11)) if cid[1] % 20 != 6 else int(rng.integers(30, 400))      # now and then very many populations
        rfi = np.sort(np.exp(rng.uniform(0, 12, size=k)))
        mef = np.sort(np.exp(rng.uniform(2, 15, size=k)))
        shuffled = rng.random() < 0.2
        if shuffled:
            # same pairs listed in another order: outside the workflow (it always sorts by brightness);
            # observed and counted, the structural clause is judged only when the fitted slope is positive
            order = rng.permutation(k)
            rfi, mef = rfi[order], mef[order]
        mon.last_fit_degenerate = None
        with np.errstate(all='ignore'):
            o = core.attempt(fit, rfi, mef)
        if o.raised:
            ctx.note('arbitrary pairs: fit raised ' + type(o.exc).__name__)
        elif shuffled:
            ctx.note('shuffled listing: ' + ('degenerate fit (not judged)' if mon.last_fit_degenerate else 'regular fit'))
        else:
            if mon.last_fit_degenerate == 'unrepresentable':
                ctx.note('ordered pairs with a slope so steep that e^b is not representable (structure not evaluable, not judged)')
            elif mon.last_fit_degenerate:
                ctx.note('ordered pairs: fit with non-positive slope or non-finite parameters (structural clauses judged by the monitor)')
        ctx.case_done(class_key=('arbitrary', 'shuffled' if shuffled else 'ordered', k), nontrivial=True,
                      distinct_key=core.digest(rfi, mef))
    # ---- refusals --------------------------------------------------------------------
    for cid, rng in ctx.cases([('ref', i) for i in range(60 if ctx.tier == 'quick' else 600)]):
        mon.cid = cid
        k = int(rng.integers(0, 3))
        rfi = np.sort(np.exp(rng.uniform(0, 12, size=k)))
        mef = np.sort(np.exp(rng.uniform(2, 15, size=k)))
        o = core.attempt(fit, rfi, mef)
        ctx.counters['chk:refusal'] += 1
        if ctx.check(o.raised, 'refusal:fewer-than-three-accepted', cid, k=k):
            ctx.refusal('few:' + type(o.exc).__name__)
        k1, k2 = int(rng.integers(3, 9)), int(rng.integers(3, 9))
        if k1 != k2:
            o = core.attempt(fit, np.sort(np.exp(rng.uniform(0, 12, size=k1))), np.sort(np.exp(rng.uniform(2, 15, size=k2))))
            ctx.counters['chk:refusal'] += 1
            if ctx.check(o.raised, 'refusal:length-mismatch-accepted', cid, k1=k1, k2=k2):
                ctx.refusal('mismatch:' + type(o.exc).__name__)
        ctx.case_done(class_key=('refusals',), nontrivial=True, distinct_key=core.digest(cid))
    mon.detach()
