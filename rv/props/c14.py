"""C14 - TEXT keywords/values are returned exactly as written, or rejected."""
import io
import itertools
import os
import warnings

import numpy as np

from rv import core, fcsgen, layouts
from rv.refmodels import textseg

ANCHORS = ['read_fcs_text_segment', 'FCSFile.__init__']      # functions the property is anchored in: never entered => inconclusive
LEVEL = 'exploration'
LEVEL_TEXT = 'Exhaustive comparison with an independent left-to-right tokenizer over all strings on {delimiter,a,b} up to length 10 (quick) / 14 (thorough), primary and supplemental, random dictionaries x printable delimiters, damaged encodings, files with supplemental TEXT and ANALYSIS, and an in-situ monitor on every segment any load parses. Exhaustive over the bounded string space.'
TECHNIQUE = 'exhaustive differential monitoring against an independent reference tokenizer + in-situ segment monitor'
RULE = ('(i) all strings over {delimiter,a,b} up to length L (quick L=10, thorough L=14), primary and '
        'supplemental, against an independent left-to-right tokenizer (exhaustive); (ii) random keyword '
        'dictionaries over a rich alphabet x printable delimiters, encoded with the doubling rule then decoded; '
        '(iii) files with primary + supplemental TEXT + ANALYSIS. non-trivial = string contains a delimiter run '
        '>= 2 or dictionary has a key/value containing the delimiter; every enumerated string is distinct')
ASSUMPTIONS = ['reference tokenizer rv/refmodels/textseg.py encodes the FCS escaping rule; tolerated ending = '
               'segment ending in an even run of delimiters (read with a warning)',
               'text after the last delimiter is ignored (documented tolerance, pinned by the repository tests)']
MIN_CHECKS = {'quick': 250000, 'thorough': 5000000}
EXHAUSTIVE = {'quick': True, 'thorough': True}
TIMEOUT_S = {'quick': 600, 'thorough': 3600}
L = {'quick': 10, 'thorough': 14}


def call_reader(FlowCal, raw, delim, supplemental, explicit_delim):
    buf = io.BytesIO(raw.encode('latin-1'))
    with warnings.catch_warnings(record=True) as w:
        warnings.simplefilter('always')
        try:
            d, dl = FlowCal.io.read_fcs_text_segment(
                buf, 0, len(raw) - 1, delim=delim if (supplemental or explicit_delim) else None,
                supplemental=supplemental)
        except Exception as e:   # noqa
            return 'error', None, type(e).__name__
    return ('warn' if w else 'ok'), d, None


def compare(ctx, cid, FlowCal, raw, delim, supplemental, explicit_delim=False, mech='tokenizer'):
    got_cls, got, exc = call_reader(FlowCal, raw, delim, supplemental, explicit_delim)
    if not supplemental and not explicit_delim and raw:
        delim = raw[0]      # the reader takes the first byte of a primary segment as the delimiter
    want_cls, want = textseg.parse(raw, delim, supplemental)
    ok = (got_cls == want_cls) and (got == want)
    if not ok:
        if want_cls == 'error':
            m = 'ill-formed-accepted'
        elif got_cls == 'error':
            m = 'well-formed-rejected'
        elif got != want:
            m = 're-paired'
        else:
            m = 'warning-mismatch'
        ctx.check(False, mech + ':' + m, cid, raw=raw, delim=delim, supplemental=supplemental,
                  got=[got_cls, got, exc], want=[want_cls, want])
    else:
        ctx.counters['checks'] += 1
        ctx.counters['chk:' + mech] += 1
    return want_cls


ALPHA = 'abcXYZ019 $,.:;-_=+()[]{}<>#@!?*&^%~`\'"\\/|\t\xe9\xff\xb5'


def rand_token(rng, delim, maxlen=10):
    n = int(rng.integers(1, maxlen + 1))
    pool = ALPHA + delim * 6
    while True:
        s = ''.join(pool[int(i)] for i in rng.integers(0, len(pool), size=n))
        if s and s[0] != delim:
            return s


def rand_dict(rng, delim, kmax=12):
    k = int(rng.integers(0, kmax + 1))
    d = {}
    while len(d) < k:
        d[rand_token(rng, delim)] = rand_token(rng, delim, 14)
    return d


def run(ctx):
    FlowCal = core.import_flowcal()
    Lmax = L[ctx.tier]
    syms = '/ab'
    # ---- (i) exhaustive block ----------------------------------------------
    blocks = [('short',)] + [('pre', p) for p in itertools.product(range(3), repeat=3)]
    for cid, rng in ctx.cases(blocks):
        if cid[0] == 'short':
            strings = [''.join(t) for n in range(0, 3) for t in itertools.product(syms, repeat=n)]
        else:
            pre = ''.join(syms[i] for i in cid[1])
            strings = (pre + ''.join(t) for n in range(0, Lmax - 2) for t in itertools.product(syms, repeat=n))
        cnt = collections_counter()
        for s in strings:
            for supp, expl in ((False, True), (False, False), (True, True)):
                cls = compare(ctx, cid, FlowCal, s, '/', supp, explicit_delim=expl)
                cnt[(supp, cls)] += 1
            nt = '//' in s
            ctx.counters['cases'] += 1
            if nt:
                ctx.counters['nontrivial'] += 1
                ctx.distinct_extra += 1
        for (supp, cls), n in cnt.items():
            ctx.classes[str(('exhaustive', 'supp' if supp else 'primary', cls))] += n
    ctx.samples.append({'exhaustive_block_example': '/a//b/a', 'alphabet': syms, 'max_len': Lmax})
    # ---- (ii) encode/decode round trip --------------------------------------
    delims = [chr(c) for c in range(33, 127)] + ['\t', '\x0c', '\x1e', ' ']
    nrt = 6000 if ctx.tier == 'quick' else 400000
    for cid, rng in ctx.cases([('rt', i) for i in range(nrt)]):
        delim = delims[int(rng.integers(len(delims)))]
        d = rand_dict(rng, delim)
        if cid[1] % 400 == 7:
            # a long segment (well above 2^16 bytes: block-wise readers, fixed-size buffers): thousands of pairs and a few very
            # long values, with delimiters placed around the multiples of 65536
            for _ in range(int(rng.integers(1500, 4000))):
                d[rand_token(rng, delim, 12)] = rand_token(rng, delim, 40)
            for _ in range(3):
                d[rand_token(rng, delim, 12)] = rand_token(rng, delim, 3) + (delim + 'x') * int(rng.integers(5000, 30000))
        supp = bool(rng.integers(2))
        leading = True if not supp else bool(rng.integers(2))
        raw = fcsgen.encode_text(list(d.items()), delim, leading=leading).decode('latin-1')
        if not d:
            raw = delim if leading else ''
        junk = ''
        if rng.random() < 0.3 and raw:
            junk = ''.join(str(rng.choice(list(' \x00ab'))) for _ in range(int(rng.integers(1, 5)))).replace(delim, '')
        expl = bool(rng.integers(2))
        got_cls, got, exc = call_reader(FlowCal, raw + junk, delim, supp, expl)
        ctx.check(got_cls == 'ok' and got == d, 'roundtrip', cid, raw=raw + junk, delim=delim,
                  supplemental=supp, got=[got_cls, got, exc], want=d)
        # and against the reference tokenizer (self-check of the oracle pair)
        compare(ctx, cid, FlowCal, raw + junk, delim, supp, explicit_delim=expl, mech='tokenizer-rich')
        has_delim = any(delim in k or delim in v for k, v in d.items())
        ctx.case_done(class_key=('roundtrip', 'supp' if supp else 'primary', 'lead' if leading else 'nolead',
                                 'delim-inside' if has_delim else 'plain', 'junk' if junk else 'clean'),
                      nontrivial=has_delim, distinct_key=core.digest(raw, delim, supp),
                      sample={'delim': delim, 'dict': d, 'raw': raw} if cid[1] < 2 else None)
    # mutated encodings (random damage) vs reference
    nmut = 6000 if ctx.tier == 'quick' else 400000
    for cid, rng in ctx.cases([('mut', i) for i in range(nmut)]):
        delim = delims[int(rng.integers(len(delims)))]
        d = rand_dict(rng, delim, 5)
        raw = fcsgen.encode_text(list(d.items()), delim).decode('latin-1')
        raw = list(raw)
        for _ in range(int(rng.integers(1, 4))):
            op = int(rng.integers(3))
            pos = int(rng.integers(0, len(raw) + 1))
            if op == 0:
                raw.insert(pos, delim)
            elif op == 1 and raw:
                del raw[min(pos, len(raw) - 1)]
            else:
                raw.insert(pos, 'q')
        raw = ''.join(raw)
        supp = bool(rng.integers(2))
        cls = compare(ctx, cid, FlowCal, raw, delim, supp, explicit_delim=bool(rng.integers(2)), mech='tokenizer-rich')
        ctx.case_done(class_key=('mutated', 'supp' if supp else 'primary', cls), nontrivial=True,
                      distinct_key=core.digest(raw, delim, supp))
    # ---- (iii) file level, with the in-situ monitor on every segment any load parses ----
    from rv import monitors, suite_workload
    mon = monitors.Monitors(ctx, FlowCal, tag='file-loads')
    mon.attach_textseg()
    nfile = 300 if ctx.tier == 'quick' else 20000
    path = os.path.join(ctx.tmpdir, 'c14.fcs')
    cells = [c for c in layouts.lattice() if c[0] != 'FCS2.0']
    for cid, rng in ctx.cases([('file', i) for i in range(nfile)]):
        mon.cid = cid
        cell = cells[int(rng.integers(len(cells)))]
        spec = layouts.make_spec(rng, cell, max_n=5, max_d=4)
        spec.pop('key_order', None)
        delim = spec['delim']
        prim = {('U' + k): v for k, v in rand_dict(rng, delim, 6).items()}
        stx = {('S' + k): v for k, v in rand_dict(rng, delim, 6).items()}
        ana = rand_dict(rng, delim, 6)
        spec['extra'] = list(prim.items())
        use_stext = rng.random() < 0.7
        use_ana = rng.random() < 0.7
        if use_stext:
            spec['stext'] = list(stx.items())
            spec['stext_leading'] = bool(rng.integers(2))
            spec['pad_before_stext'] = int(rng.integers(0, 5))
            if rng.random() < 0.4:
                spec['stext_position'] = 'before_text'       # segment order HEADER, supplemental TEXT, TEXT, DATA
        if use_ana:
            spec['analysis'] = list(ana.items())
            spec['analysis_leading'] = bool(rng.integers(2))
            spec['analysis_offsets'] = str(rng.choice(['header', 'text']))
        raw, lay = fcsgen.build(spec)
        with open(path, 'wb') as fh:
            fh.write(raw)
        for where, ctor in (('FCSFile', FlowCal.io.FCSFile), ('FCSData', FlowCal.io.FCSData)):
            o = core.attempt(ctor, path)
            if not ctx.check(not o.raised, 'file:well-formed-rejected', cid, where=where,
                             exc=core.exc_str(o.exc) if o.raised else None, spec=layouts.describe(spec)):
                continue
            text = o.value.text
            want_user = dict(prim)
            if use_stext and stx:
                want_user.update(stx)
            got_user = {k: v for k, v in text.items() if k[:1] in 'US' and not k.startswith('$')}
            ctx.check(got_user == want_user, 'file:text-keywords', cid, where=where, got=got_user,
                      want=want_user, delim=delim)
            ctx.check(text.get('$PAR') == str(len(spec['widths'])) and text.get('$BYTEORD') == spec['byteord'],
                      'file:std-keywords', cid, where=where)
            want_ana = ana if use_ana else {}
            ctx.check(o.value.analysis == want_ana, 'file:analysis', cid, where=where, got=o.value.analysis,
                      want=want_ana, delim=delim, warnings=o.warnings)
        ctx.case_done(class_key=('file', cell[0], ('stext-' + spec.get('stext_position', 'after_text')) if use_stext else '-', 'ana-' + spec.get('analysis_offsets', 'none')
                                 if use_ana else 'noana'), nontrivial=True, distinct_key=core.digest(raw))

    # the repository's own reader tests (many hand-written TEXT segments) as a workload under the in-situ monitor
    suite_workload.run_repo_suite(ctx, mon, modules=('test_io.py',))
    mon.detach()


def collections_counter():
    import collections
    return collections.Counter()
