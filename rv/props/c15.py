"""C15 - a well-formed workbook always yields a complete, faithful output workbook.

Driver around excel_ui.run on generated well-formed workbooks x {plots, histogram sheet, explicit/default output path},
bead rows with 1/2/3 clustering channels (three figure kinds), the shipped example workbook (thorough): no exception,
sheets present in order, every input row/column preserved with equal cell values, documented result columns added, no
ERROR notes, every documented figure file written as a non-empty PNG.  Termination judged on a logical step budget.
Round trip: write_workbook -> read_table on arbitrary tables.
"""
import os
import shutil
import warnings

import numpy as np
import pandas as pd

from rv import core, excelgen, monitors, reach

ANCHORS = ['run', 'read_table', 'write_workbook', 'density_and_hist']      # functions the property is anchored in: never entered => inconclusive
LEVEL = 'exploration'
LEVEL_TEXT = 'End-to-end runs of the real workflow on generated well-formed workbooks x options with an output-workbook integrity oracle, figure-file oracle and a logical step budget (sys.monitoring) for termination; write/read round trip on arbitrary tables; the shipped example in the thorough tier. Exploration.'
TECHNIQUE = 'end-to-end run of the real workflow under an output-workbook integrity oracle, figure-file oracle and logical step budget'
RULE = ('generated well-formed workbooks (as C10) x {plots on/off, histogram sheet on/off, explicit/default output path} x '
        'bead rows with 1,2,3 clustering channels; arbitrary tables of strings, integers, floats, empty cells (index gaps, '
        'duplicates) for the write/read round trip; the shipped example workbook (thorough); non-trivial = workbook with '
        '>= 1 bead row or plots on, or round-trip table with >= 1 empty cell; distinct = digest(workbook, options)'
        ' Also: 1-4 clustering channels incl. a scatter channel, a row whose gate keeps no event, progress messages on, sheet/identifier column addressed by position.')
ASSUMPTIONS = ['cell equality: NaN == empty, numeric equality across int/float',
               'step budget = 8e6 + 6e6 per row (a typical row costs ~1.1e6 counted steps, the most expensive seen 1.2e6); exceeding it aborts the run and is a violation; the wall-clock watchdog only yields inconclusive']
MIN_CHECKS = {'quick': 400, 'thorough': 6000}
REQUIRED_COUNTERS = ['chk:run', 'chk:workbook', 'chk:figures', 'chk:roundtrip']
TIMEOUT_S = {'quick': 2400, 'thorough': 14000}
PNG = b'\x89PNG\r\n\x1a\n'
STAT_SUFFIXES = [' Detector Volt.', ' Amp. Type', ' Mean', ' Geom. Mean', ' Median', ' Mode', ' Std', ' CV', ' Geom. Std',
                 ' Geom. CV', ' IQR', ' RCV']


def cell_eq(a, b):
    na = a is None or (isinstance(a, float) and np.isnan(a)) or a is pd.NaT
    nb = b is None or (isinstance(b, float) and np.isnan(b)) or b is pd.NaT
    if na or nb:
        return na and nb
    if isinstance(a, (int, float, np.integer, np.floating)) and isinstance(b, (int, float, np.integer, np.floating)):
        return float(a) == float(b) or abs(float(a) - float(b)) <= 1e-12 * abs(float(a))
    return a == b or str(a) == str(b)


def table_preserved(ctx, cid, name, tin, tout, mech):
    ok = list(tout.index) == list(tin.index)
    ctx.check(ok, mech + ':rows', cid, sheet=name, got=list(map(str, tout.index))[:8], want=list(map(str, tin.index))[:8])
    cin = list(tin.columns)
    cout = [c for c in tout.columns if c in cin]
    ctx.check(cout == cin, mech + ':columns', cid, sheet=name, missing=[c for c in cin if c not in list(tout.columns)],
              order_ok=cout == cin)
    if not ok:
        return
    bad = []
    for c in cin:
        if c not in tout.columns:
            continue
        for r in tin.index:
            if not cell_eq(tin.at[r, c], tout.at[r, c]):
                bad.append((str(r), c, repr(tin.at[r, c]), repr(tout.at[r, c])))
    ctx.check(not bad, mech + ':cells', cid, sheet=name, first=bad[:3])


def run(ctx):
    F = core.import_flowcal()
    E = F.excel_ui
    import matplotlib.pyplot as plt
    import openpyxl
    mon = monitors.Monitors(ctx, F, tag='excel-run')
    mon.attach_alignment()
    n = 6 if ctx.tier == 'quick' else 80
    for cid, rng in ctx.cases([('wb', i) for i in range(n)]):
        mon.cid = cid
        base = os.path.join(ctx.tmpdir, 'wb%d' % cid[1])
        shutil.rmtree(base, ignore_errors=True)
        plot = (cid[1] % 3 == 0)
        hist = bool(cid[1] % 2)
        explicit = (cid[1] % 4) < 2
        wide = cid[1] % 6 == 3
        ncl = [1, 3, 2, 4][(cid[1] // 3) % 4] if ctx.tier == 'thorough' else [4, 3, 2, 1][cid[1] // 3 % 4]    # plotted workbooks: cid 0 -> 4, cid 3 -> 3
        itab, btab, stab, info = excelgen.experiment(rng, base, n_inst=int(rng.integers(1, 3)), n_beads=int(rng.integers(1, 3)) if plot or rng.random() < 0.7 else 0,
                                                     n_samples=(int(rng.integers(1, 4)) if plot else int(rng.integers(1, 5))) if cid[1] % 6 != 5 else 24,   # one long table
                                                     units_pool=['', 'Channel', 'RFI', 'a.u.', 'MEF', 'mef', 'au'] if not wide else ['RFI', 'a.u.', 'Channel', 'au'],
                                                     nfl=(3 if ncl >= 3 else None) if not wide else 12,      # 'wide': twelve reported fluorescence channels, plotted
                                                     force_float_first=hist and cid[1] % 4 != 3,   # 2^18-resolution channel on the histogram sheet
                                                     zero_fraction_first=cid[1] % 3 == 1 or cid[1] % 6 == 3,            # a row whose gate keeps no event
                                                     id_style='plain' if cid[1] % 6 not in (0, 4) else 'free')       # identifiers with dots / blanks (one plotted workbook)
        if plot and len(btab) and cid[1] % 6 == 0:
            # the same beads file listed twice with the same settings under two identifiers (two lots measured once, a
            # replicate row): each row has its own result cells and its own figure files
            last_ = btab.index[-1]
            btab.loc['%s again' % last_ if cid[1] % 12 else '%s_2' % last_] = btab.loc[last_]
        # clustering channels: 1, 2 or 3 of the instrument's fluorescence channels
        for bid in btab.index:
            fl = [c.strip() for c in itab.at[btab.at[bid, 'Instrument ID'], 'Fluorescence Channels'].split(',')]
            # (the scatter channels may be clustered on too: "three channels or more" are plotted as the first three)
            cl = fl[:ncl] + ([itab.at[btab.at[bid, 'Instrument ID'], 'Side Scatter Channel']] if ncl > len(fl) else [])
            btab.at[bid, 'Clustering Channels'] = excelgen.join(rng, cl)
        inp = os.path.join(base, 'experiment input.xlsx')
        excelgen.write_input_workbook(inp, itab, btab, stab)
        outp = os.path.join(base, 'custom_out.xlsx') if explicit else None
        verbose = cid[1] % 4 == 2 or cid[1] % 6 == 3          # progress messages on (one of them with plots)
        d = dict(plot=plot, hist_sheet=hist, explicit_output=explicit, verbose=verbose, n_beads=len(btab), n_samples=len(stab),
                 clustering_channels=ncl)
        np.random.seed(int(rng.integers(1 << 30)))
        rows = len(btab) + len(stab)
        budget = int(8e6 + 6e6 * rows)
        if plot and cid[1] % 6 == 3:
            # history: the same workbook was analysed before in this process with other options (no plots, other sheets,
            # another output path); what THIS run writes does not depend on that
            import contextlib
            import io
            with warnings.catch_warnings(), contextlib.redirect_stdout(io.StringIO()):
                warnings.simplefilter('ignore')
                core.attempt(E.run, input_path=inp, output_path=os.path.join(base, 'earlier_out.xlsx'), verbose=False, plot=False,
                             hist_sheet=not hist)
            ctx.counters['chk:history:earlier-run'] += 1
            d['earlier_run'] = True
            np.random.seed(int(rng.integers(1 << 30)))
        with warnings.catch_warnings():
            warnings.simplefilter('ignore')
            with reach.StepCounter(core.repo_root(), budget=budget) as sc:
                try:
                    import contextlib
                    import io
                    with contextlib.redirect_stdout(io.StringIO()) as _so:
                        o = core.attempt(E.run, input_path=inp, output_path=outp, verbose=verbose, plot=plot, hist_sheet=hist)
                    if verbose and not o.raised:
                        ctx.note('verbose runs that printed progress', 1 if _so.getvalue() else 0)
                except reach.StepBudgetExceeded as e:      # the workflow did not finish within its logical step budget
                    o = core.Outcome(None, RuntimeError('step budget exceeded: %s' % e), [])
        plt.close('all')
        ctx.counters['chk:run'] += 1
        ctx.notes['steps_per_row_max(shard %d)' % ctx.shard] = max(ctx.notes.get('steps_per_row_max(shard %d)' % ctx.shard, 0),
                                                                  int(sc.steps / max(rows, 1)))
        ctx.check(sc.steps <= budget, 'step-budget-exceeded', cid, steps=sc.steps, budget=budget, **d)
        if not ctx.check(not o.raised, 'run-raised', cid, exc=core.tb_str(o.exc)[-700:] if o.raised else None, **d):
            ctx.case_done(class_key=('run', plot, hist, explicit, ncl), nontrivial=True, distinct_key=core.digest(cid))
            continue
        out_path = outp or os.path.join(base, 'experiment input_output.xlsx')
        ctx.counters['chk:workbook'] += 1
        if not ctx.check(os.path.exists(out_path), 'output-workbook-missing', cid, path=out_path, **d):
            continue
        wb = openpyxl.load_workbook(out_path, read_only=True)
        want_sheets = ['Instruments', 'Beads', 'Samples'] + (['Histograms'] if hist else []) + ['About Analysis']
        ctx.check(wb.sheetnames == want_sheets, 'sheets', cid, got=wb.sheetnames, want=want_sheets)
        wb.close()
        ti = E.read_table(inp, 'Instruments', 'ID')
        tb = E.read_table(inp, 'Beads', 'ID')
        tsa = E.read_table(inp, 'Samples', 'ID')
        oi = pd.read_excel(out_path, sheet_name='Instruments', index_col='ID')
        ob = pd.read_excel(out_path, sheet_name='Beads', index_col='ID')
        os_ = pd.read_excel(out_path, sheet_name='Samples', index_col='ID')
        table_preserved(ctx, cid, 'Instruments', ti, oi, 'preserved')
        table_preserved(ctx, cid, 'Beads', tb, ob, 'preserved')
        table_preserved(ctx, cid, 'Samples', tsa, os_, 'preserved')
        # documented result columns
        for name, tin, tout, unit_sfx in (('Beads', tb, ob, ' MEF Values'), ('Samples', tsa, os_, ' Units')):
            need = ['Analysis Notes', 'Number of Events', 'Acquisition Time (s)']
            chans = [c[:-len(unit_sfx)] for c in tin.columns if c.endswith(unit_sfx)]
            for ch in chans:
                need += [ch + ' Detector Volt.', ch + ' Amp. Type']
                if name == 'Samples':
                    need += [ch + s for s in STAT_SUFFIXES]
                elif len(tin):
                    need += [ch + ' Beads Model', ch + ' Beads Params. Names', ch + ' Beads Params. Values']
            miss = [c for c in need if c not in tout.columns]
            ctx.check(not miss, 'result-columns-missing', cid, sheet=name, missing=miss[:6])
            if 'Analysis Notes' in tout.columns:
                errs = [str(v) for v in tout['Analysis Notes'] if isinstance(v, str) and v.startswith('ERROR')]
                ctx.check(not errs, 'well-formed-row-reported-as-error', cid, sheet=name, notes=errs[:3], **d)
            if 'Number of Events' in tout.columns and len(tout):
                ctx.check(bool(np.all(pd.notnull(tout['Number of Events']))), 'event-count-missing', cid, sheet=name)
        about = pd.read_excel(out_path, sheet_name='About Analysis', index_col='Keyword')
        ctx.check('FlowCal version' in about.index and str(about.at['FlowCal version', 'Value']) == F.__version__ and
                  'Input file path' in about.index, 'about-sheet', cid, got=list(map(str, about.index)))
        if hist:
            oh = pd.read_excel(out_path, sheet_name='Histograms')
            reported = sum(int(pd.notnull(tsa.at[r, c])) for r in tsa.index for c in tsa.columns if c.endswith(' Units'))
            ctx.check(len(oh) == 2 * reported, 'histogram-sheet-rows', cid, got=len(oh), want=2 * reported)
        # ---- figures ----------------------------------------------------------------------
        if plot:
            ctx.counters['chk:figures'] += 1
            want = []
            for bid in tb.index:
                want.append(os.path.join(base, 'plot_beads', 'density_hist_%s.png' % bid))
                mch = [c[:-11] for c in tb.columns if c.endswith(' MEF Values') and pd.notnull(tb.at[bid, c])]
                fl = [c.strip() for c in ti.at[tb.at[bid, 'Instrument ID'], 'Fluorescence Channels'].split(',')]
                mch = [c for c in fl if c in mch]
                if mch:
                    want.append(os.path.join(base, 'plot_beads', 'clustering_%s.png' % bid))
                    for ch in mch:
                        want.append(os.path.join(base, 'plot_beads', 'populations_%s_%s.png' % (ch, bid)))
                        want.append(os.path.join(base, 'plot_beads', 'std_crv_%s_%s.png' % (ch, bid)))
            for sid in tsa.index:
                want.append(os.path.join(base, 'plot_samples', '%s.png' % sid))
            missing, bad = [], []
            for p in want:
                if not os.path.exists(p):
                    missing.append(os.path.relpath(p, base))
                else:
                    with open(p, 'rb') as fh:
                        head = fh.read(8)
                    if head != PNG or os.path.getsize(p) < 200:
                        bad.append(os.path.relpath(p, base))
            ctx.check(not missing and not bad, 'figure-files', cid, missing=missing[:6], not_png=bad[:6], expected=len(want), **d)
        else:
            ctx.check(not os.path.exists(os.path.join(base, 'plot_samples')) and not os.path.exists(os.path.join(base, 'plot_beads')),
                      'figures-written-without-request', cid)
        ctx.case_done(class_key=('run', plot, hist, explicit, ncl), nontrivial=plot or len(btab) > 0,
                      distinct_key=core.digest(cid), sample=d if cid[1] < 2 else None)
        shutil.rmtree(base, ignore_errors=True)
    # ---- shipped example workbook ----------------------------------------------------------
    if ctx.tier == 'thorough':
        for cid, rng in ctx.cases([('example', 0), ('example', 1)]):
            mon.cid = cid
            src = os.path.join(core.repo_root(), 'examples')
            if not os.path.exists(os.path.join(src, 'experiment.xlsx')):
                ctx.note('example workbook not present in tree')
                continue
            dst = os.path.join(ctx.tmpdir, 'example%d' % cid[1])
            shutil.copytree(src, dst)
            plot = bool(cid[1])
            with warnings.catch_warnings():
                warnings.simplefilter('ignore')
                with reach.StepCounter(core.repo_root()) as sc:
                    o = core.attempt(E.run, input_path=os.path.join(dst, 'experiment.xlsx'), output_path=None, verbose=False,
                                     plot=plot, hist_sheet=True)
            plt.close('all')
            ctx.counters['chk:run'] += 1
            if ctx.check(not o.raised, 'run-raised:example', cid, exc=core.tb_str(o.exc)[-700:] if o.raised else None, plot=plot):
                outp = os.path.join(dst, 'experiment_output.xlsx')
                ctx.check(os.path.exists(outp), 'output-workbook-missing', cid)
                for sheet in ('Instruments', 'Beads', 'Samples'):
                    tin = E.read_table(os.path.join(dst, 'experiment.xlsx'), sheet, 'ID')
                    tout = pd.read_excel(outp, sheet_name=sheet, index_col='ID')
                    table_preserved(ctx, cid, sheet, tin, tout, 'preserved')
                    if 'Analysis Notes' in tout.columns:
                        errs = [str(v) for v in tout['Analysis Notes'] if isinstance(v, str) and v.startswith('ERROR')]
                        ctx.check(not errs, 'well-formed-row-reported-as-error', cid, sheet=sheet, notes=errs[:3])
                if plot:
                    nb = len(os.listdir(os.path.join(dst, 'plot_beads'))) if os.path.isdir(os.path.join(dst, 'plot_beads')) else 0
                    ns = len(os.listdir(os.path.join(dst, 'plot_samples'))) if os.path.isdir(os.path.join(dst, 'plot_samples')) else 0
                    ctx.check(nb >= 5 and ns >= 10, 'figure-files', cid, beads_figures=nb, sample_figures=ns)
            ctx.notes['example_steps_plot%d' % plot] = sc.steps
            ctx.case_done(class_key=('example', plot), nontrivial=True, distinct_key=core.digest(cid))
            shutil.rmtree(dst, ignore_errors=True)
    # ---- write_workbook / read_table round trip -------------------------------------------------
    nrt = 150 if ctx.tier == 'quick' else 1500
    # strings that the spreadsheet reader itself interprets (numeric-looking text, NA markers such as 'None'/'NA') are not
    # among the cell kinds of the statement and are left out
    words = ['alpha', 'beta gamma', 'x/y', '100%', ' lead', 'trail ', 'MiXed', 'a,b', 'FL1-H', 'ID', 'v0', 'Nothing', 'nan-ish', 'é', '-']
    for cid, rng in ctx.cases([('rt', i) for i in range(nrt)]):
        mon.cid = cid
        nr, nc = int(rng.integers(0, 8)), int(rng.integers(1, 6))
        cols = ['Col %d %s' % (j, words[int(rng.integers(len(words)))].strip()) for j in range(nc)]
        data = {}
        for c in cols:
            kind = int(rng.integers(4))
            colv = []
            for r in range(nr):
                if rng.random() < 0.2:
                    colv.append(None)
                elif kind == 0:
                    colv.append(words[int(rng.integers(len(words)))])
                elif kind == 1:
                    colv.append(int(rng.integers(-1000, 100000)))
                elif kind == 2:
                    colv.append(float(np.round(rng.normal(0, 1000), int(rng.integers(0, 6)))))
                else:
                    colv.append([words[int(rng.integers(len(words)))], int(rng.integers(100)), float(rng.random())][int(rng.integers(3))])
            data[c] = colv
        mode = str(rng.choice(['unique', 'gaps', 'dups'])) if nr >= 2 else 'unique'
        ids = ['row%d' % r for r in range(nr)] if rng.random() < 0.7 else [int(100 + r) for r in range(nr)]
        if mode == 'dups':
            ids[-1] = ids[0]
        df = pd.DataFrame(data, columns=cols)
        df.insert(0, 'ID', pd.Series(ids, dtype=object))
        gaps = []
        if mode == 'gaps':
            gaps = [int(x) for x in rng.choice(nr, size=int(rng.integers(1, nr)), replace=False)]
            for g in gaps:
                df.at[g, 'ID'] = None
        path = os.path.join(ctx.tmpdir, 'rt.xlsx')
        other = pd.DataFrame({'K': ['a', 'b'], 'V': [1, 2.5]}).set_index('K')
        ow = core.attempt(E.write_workbook, path, [('First', df.set_index('ID')), ('Other Sheet', other)])
        ctx.counters['chk:roundtrip'] += 1
        dd = dict(mode=mode, shape=[nr, nc])
        if not ctx.check(not ow.raised, 'roundtrip:write-raised', cid, exc=core.exc_str(ow.exc) if ow.raised else None, **dd):
            continue
        # the sheet and the identifier column are documented as "name or index": both spellings must read the same table
        icol = ['ID', 0, 'ID', np.int64(0)][int(rng.integers(4))]
        sheet = ['First', 0][int(rng.integers(2))]
        dd.update(index_col=repr(icol), sheet=repr(sheet))
        orr = core.attempt(E.read_table, path, sheet, icol)
        if orr.raised and not isinstance(icol, (str, int)) and mode != 'dups':
            ctx.note('form-refused:index_col:' + type(icol).__name__)      # a refused spelling is observed only
            orr = core.attempt(E.read_table, path, sheet, 'ID')
        if mode == 'dups':
            if ctx.check(orr.raised and isinstance(orr.exc, ValueError), 'roundtrip:duplicate-identifiers-accepted', cid, **dd):
                ctx.refusal('duplicates:ValueError')
        elif ctx.check(not orr.raised, 'roundtrip:read-raised', cid, exc=core.exc_str(orr.exc) if orr.raised else None, **dd):
            back = orr.value
            keep = [r for r in range(nr) if r not in gaps]
            want = df.iloc[keep].set_index('ID')
            ok = list(back.columns) == list(want.columns) and len(back.index) == len(want.index) and \
                all(cell_eq(a, b) for a, b in zip(back.index, want.index))
            ctx.check(ok, 'roundtrip:names-or-identifiers', cid, got_cols=list(back.columns), want_cols=list(want.columns),
                      got_idx=[str(x) for x in back.index], want_idx=[str(x) for x in want.index], **dd)
            if ok:
                bad = [(r, c, repr(want.iloc[r][c]), repr(back.iloc[r][c])) for r in range(len(want)) for c in want.columns
                       if not cell_eq(want.iloc[r][c], back.iloc[r][c])]
                ctx.check(not bad, 'roundtrip:cells', cid, first=bad[:3], **dd)
            o2 = core.attempt(E.read_table, path, ['Other Sheet', 1][int(rng.integers(2))], ['K', 0][int(rng.integers(2))])
            ctx.check((not o2.raised) and list(o2.value.index) == ['a', 'b'], 'roundtrip:second-sheet', cid)
        for badname in (None, ['First', 'Other Sheet']):
            ob = core.attempt(E.read_table, path, badname, 'ID')
            ctx.check(ob.raised, 'roundtrip:bad-sheetname-accepted', cid, sheetname=repr(badname))
        ctx.case_done(class_key=('roundtrip', mode, nr == 0), nontrivial=any(v is None for c in cols for v in data[c]) or mode != 'unique',
                      distinct_key=core.digest(cid), sample=dict(dd, columns=cols, ids=[str(i) for i in ids]) if cid[1] < 2 else None)
    mon.detach()
