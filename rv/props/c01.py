"""C01 - loading an FCS file returns exactly the events recorded in it.

Workload: the full categorical layout lattice (exhaustive over the dims), with
random widths/values/shapes per cell; plus a refusal family.
Oracle: matrix encoded by rv.fcsgen (python ints / struct), compared cell by
cell as python ints (integers after the range mask) or bit patterns (floats).
"""
import os
import struct

import numpy as np

from rv import core, fcsgen, layouts

ANCHORS = ['read_fcs_header_segment', 'read_fcs_data_segment', 'FCSFile.__init__']      # functions the property is anchored in: never entered => inconclusive
LEVEL = 'exploration'
LEVEL_TEXT = 'Every cell of the layout lattice (version x kind x byte order x range kind x offset placement x end convention x padding) is visited with random widths/shapes/values; both observation points are compared cell by cell with a matrix encoded by an independent writer; a refusal family must raise; a load-scribble-reload history guards against shared buffers. Held on the executions observed; exhaustive only over the categorical dims.'
TECHNIQUE = 'runtime contract on the loader vs an independently encoded matrix over a layout lattice + load history'
RULE = ('every cell of the layout lattice version x kind x $BYTEORD x range-kind x offsets x '
        'end-convention x padding is visited (exhaustive over these dims) with random '
        'widths/values/shape; non-trivial = >=2 events and some value with a non-zero high byte '
        '(or any float column); distinct = digest of the whole generated file'
        ' Also: one open handle handed to the reader several times.')
ASSUMPTIONS = ['rv.fcsgen implements the FCS 2.0/3.0/3.1 list-mode layout correctly (independent of FlowCal.io)',
               'ranges are integers exactly representable as floats']
MIN_CHECKS = {'quick': 3000, 'thorough': 400000}
EXHAUSTIVE = {'quick': False, 'thorough': False}
TIMEOUT_S = {'quick': 600, 'thorough': 3600}


def observe(FlowCal, path):
    """Both observation points of the property."""
    f = core.attempt(lambda: FlowCal.io.FCSFile(path))
    d = core.attempt(lambda: FlowCal.io.FCSData(path))
    return f, d


def compare(ctx, cid, spec, arr, where):
    """arr: numpy array returned; compare to the encoded matrix."""
    exp = fcsgen.expected_matrix(spec)
    N, D = len(spec['events']), len(spec['widths'])
    if not ctx.check(tuple(arr.shape) == (N, D), 'shape', cid, where=where,
                     got=list(arr.shape), want=[N, D], spec=layouts.describe(spec)):
        return False
    dt = spec['datatype']
    a = np.asarray(arr)
    if dt == 'I':
        ok = a.dtype.kind == 'u' and a.dtype.itemsize * 8 >= max(spec['widths'])
        ctx.check(ok, 'dtype', cid, where=where, dtype=str(a.dtype), widths=spec['widths'])
        got = a.tolist()
        bad = None
        for i in range(N):
            if got[i] != exp[i]:
                j = [k for k in range(D) if got[i][k] != exp[i][k]][0]
                bad = (i, j, got[i][j], exp[i][j])
                break
        return ctx.check(bad is None, 'values', cid, where=where, first_bad=bad,
                         spec=layouts.describe(spec))
    else:
        want_dt = '<f4' if dt == 'F' else '<f8'
        ok = a.dtype.kind == 'f' and a.dtype.itemsize == (4 if dt == 'F' else 8)
        ctx.check(ok, 'dtype', cid, where=where, dtype=str(a.dtype))
        fmt = '<f' if dt == 'F' else '<d'
        want = b''.join(struct.pack(fmt, v) for row in exp for v in row)
        got = np.ascontiguousarray(a).astype(want_dt).tobytes()
        return ctx.check(got == want, 'values', cid, where=where, spec=layouts.describe(spec))


def nontrivial(spec):
    if len(spec['events']) < 2:
        return False
    if spec['datatype'] != 'I':
        return True
    return any(int(v) >> 8 for row in spec['events'] for v in row)


def run_case(ctx, FlowCal, cid, spec, path):
    raw, lay = fcsgen.build(spec)
    with open(path, 'wb') as fh:
        fh.write(raw)
    f, d = observe(FlowCal, path)
    desc = layouts.describe(spec)
    ok = True
    if not ctx.check(not f.raised, 'supported-layout-refused', cid, where='FCSFile',
                     exc=core.exc_str(f.exc) if f.raised else None, spec=desc):
        ok = False
    else:
        ok &= compare(ctx, cid, spec, f.value.data, 'FCSFile.data')
    if not ctx.check(not d.raised, 'supported-layout-refused', cid, where='FCSData',
                     exc=core.exc_str(d.exc) if d.raised else None, spec=desc):
        ok = False
    else:
        ok &= compare(ctx, cid, spec, np.asarray(d.value), 'asarray(FCSData)')
        ctx.check(tuple(d.value.channels) == tuple(spec['names']), 'channel-order', cid,
                  got=list(d.value.channels), want=spec['names'])
        # history: what an earlier load's owner did to its sample must not leak into a later load of the same file
        if d.value.size and hash((spec['datatype'], len(raw))) % 3 == 0:
            s1 = d.value
            s1[...] = 0 if spec['datatype'] == 'I' else -1.5
            s1.text['$TOT'] = 'scribbled'
            d2 = core.attempt(FlowCal.io.FCSData, path)
            if ctx.check(not d2.raised, 'supported-layout-refused', cid, where='FCSData(reload)',
                         exc=core.exc_str(d2.exc) if d2.raised else None, spec=desc):
                compare(ctx, cid, spec, np.asarray(d2.value), 'asarray(FCSData) after an earlier load was modified in place')
                ctx.check(d2.value.text.get('$TOT') == str(len(spec['events'])), 'reload-sees-earlier-sample-state', cid)
    # history: one open file object ("str or file-like") handed to the reader several times in a row; every load reads
    # the same file from its first byte, wherever the previous load left the position
    if len(raw) % 4 == 1:
        with open(path, 'rb') as fh:
            ctx.counters['chk:handle-reuse'] += 1
            seq = [('FCSFile', FlowCal.io.FCSFile), ('FCSData', FlowCal.io.FCSData), ('FCSData', FlowCal.io.FCSData)]
            if len(raw) % 8 == 1:
                seq = seq[1:] + seq[:1]
            for i, (nm, ctor) in enumerate(seq):
                oh = core.attempt(ctor, fh)
                if ctx.check(not oh.raised, 'supported-layout-refused', cid, where='%s(same handle, load %d)' % (nm, i + 1),
                             exc=core.exc_str(oh.exc) if oh.raised else None, spec=desc):
                    compare(ctx, cid, spec, oh.value.data if nm == 'FCSFile' else np.asarray(oh.value),
                            '%s from a handle already used for %d load(s)' % (nm, i))
    return raw


REFUSALS = ['mode', 'ascii', 'unaligned', 'byteord', 'float-width']


def make_refusal(rng, kind):
    cell = (str(rng.choice(layouts.VERSIONS)), 'I-uniform', str(rng.choice(layouts.BYTEORDS)),
            'pow2w', 'header', 'last', 0)
    if kind == 'float-width':
        cell = cell[:1] + (str(rng.choice(['F', 'D'])),) + cell[2:]
    spec = layouts.make_spec(rng, cell, max_n=6, max_d=5)
    spec.pop('key_order', None)
    D, N = len(spec['widths']), len(spec['events'])
    if kind == 'mode':
        spec['mode'] = str(rng.choice(['H', 'C', 'U']))
    elif kind == 'ascii':
        spec['datatype'] = 'A'
        spec['data_bytes'] = (' '.join('%d' % (v % 1000) for r in spec['events'] for v in r)).encode() or b'0'
    elif kind == 'unaligned':
        bad = int(rng.choice([4, 10, 12, 20, 7, 33]))
        j = int(rng.integers(D))
        ws = list(spec['widths'])
        # data sized as the (aligned) original layout: decoding "some other way" would succeed
        spec['data_bytes'] = fcsgen.pack_data(spec['events'], ws, 'I', spec['byteord'])
        ws[j] = bad
        if rng.random() < 0.5:
            ws = [bad] * D
        spec['widths'] = ws
        spec['ranges'] = [1 << min(w, 16) for w in ws]
    elif kind == 'byteord':
        spec['byteord'] = str(rng.choice(['3,4,1,2', '2,1,4,3', '1,2,3', '3,2,1', '2,3,1,4']))
    elif kind == 'float-width':
        good = 32 if spec['datatype'] == 'F' else 64
        wrong = int(rng.choice([w for w in (16, 32, 64, 8) if w != good]))
        data = fcsgen.pack_data(spec['events'], spec['widths'], spec['datatype'], spec['byteord'])
        spec['data_bytes'] = data
        ws = list(spec['widths'])
        ws[int(rng.integers(D))] = wrong
        if rng.random() < 0.5:
            ws = [wrong] * D
        spec['widths'] = ws
    return spec


def run(ctx):
    FlowCal = core.import_flowcal()
    path = os.path.join(ctx.tmpdir, 'c01.fcs')
    cells = list(layouts.lattice())
    reps = 1 if ctx.tier == 'quick' else 60
    max_n = 12 if ctx.tier == 'quick' else 40
    # ---- lattice block (exhaustive over categorical dims) -----------------
    ids = [('lat', r, i) for r in range(reps) for i in range(len(cells))]
    for cid, rng in ctx.cases(ids):
        cell = cells[cid[2]]
        spec = layouts.make_spec(rng, cell, max_n=max_n)
        raw = run_case(ctx, FlowCal, cid, spec, path)
        wclass = 'native' if len(set(spec['widths'])) == 1 and spec['widths'][0] in (8, 16, 32, 64) \
            else ('uniform-odd' if len(set(spec['widths'])) == 1 else 'mixed')
        ctx.case_done(class_key=cell + (wclass,), nontrivial=nontrivial(spec),
                      distinct_key=core.digest(raw), sample=layouts.describe(spec) if cid[2] % 97 == 0 else None)
    # ---- random layouts with larger shapes -------------------------------
    nrand = 300 if ctx.tier == 'quick' else 40000
    for cid, rng in ctx.cases([('rnd', i) for i in range(nrand)]):
        cell = cells[int(rng.integers(len(cells)))]
        big = rng.random() < 0.1
        spec = layouts.make_spec(rng, cell, max_n=(400 if ctx.tier == 'quick' else 3000) if big else 30,
                                 max_d=24 if big else 12)
        raw = run_case(ctx, FlowCal, cid, spec, path)
        ctx.case_done(class_key=cell + ('rnd',), nontrivial=nontrivial(spec), distinct_key=core.digest(raw))
    # ---- large files: tens of thousands of events (block-wise or chunked decoding, wide counters) ----------------------
    kinds_big = ['I-mixed', 'I-uniform', 'F', 'I-mixed', 'D', 'I-uniform']
    for cid, rng in ctx.cases([('big', i) for i in range(4 if ctx.tier == 'quick' else 24)]):
        want_kind = kinds_big[cid[1] % len(kinds_big)]
        cand = [c for c in cells if c[1] == want_kind]
        cell = cand[int(rng.integers(len(cand)))]
        N = int(rng.choice([65536, 70001, 131072, 140003, 200000])) if ctx.tier == 'thorough' or cid[1] else 70001
        spec = layouts.make_spec(rng, cell, n=N, d=int(rng.integers(2, 5)))
        raw = run_case(ctx, FlowCal, cid, spec, path)
        ctx.case_done(class_key=('big-file', want_kind, cell[2]), nontrivial=True, distinct_key=core.digest(raw[:4096], len(raw)))
    # ---- refusal family ----------------------------------------------------
    nref = 40 if ctx.tier == 'quick' else 1500
    for kind in REFUSALS:
        for cid, rng in ctx.cases([('ref', kind, i) for i in range(nref)]):
            spec = make_refusal(rng, kind)
            raw, lay = fcsgen.build(spec)
            with open(path, 'wb') as fh:
                fh.write(raw)
            for where, ctor in (('FCSFile', FlowCal.io.FCSFile), ('FCSData', FlowCal.io.FCSData)):
                o = core.attempt(ctor, path)
                if ctx.check(o.raised, 'unsupported-layout-decoded:' + kind, cid, where=where,
                             spec=layouts.describe(spec)):
                    ctx.refusal('%s:%s' % (kind, type(o.exc).__name__))
            ctx.case_done(class_key=('refusal', kind), nontrivial=True, distinct_key=core.digest(raw))
