"""C03 - RFI conversion applies exactly the amplifier law of each selected channel.

Monitor: contract on FlowCal.transform.to_rfi (rv.monitors.oracle_to_rfi) whose oracle derives the
amplifier settings itself from the file keywords / overrides; driver adds the history clause
(batch == sequential in any order == by name == by position, exactly) and the refusal clause.
"""
import itertools
import os

import numpy as np

from rv import core, zoo, monitors

ANCHORS = ['to_rfi', 'FCSData.__new__']      # functions the property is anchored in: never entered => inconclusive
LEVEL = 'exploration'
LEVEL_TEXT = 'Contract on the real to_rfi evaluated on every call (direct, repository tests): the law is recomputed from settings the oracle derives itself from the keywords/overrides; batch == sequential == by-name == by-position exactly; inconsistent lengths must raise. Exploration with an exhaustive subset/order block.'
TECHNIQUE = 'runtime contract on to_rfi with keyword-derived law oracle + call-history equivalence checker'
RULE = ('generated integer/float samples and plain arrays x channel subsets/orderings (exhaustive for <=4 channels in '
        'the subset block) x name/position/mixed spelling x per-setting override-vs-file; non-trivial = at least one '
        'log channel and one linear channel converted or an override used; distinct = digest(sample file, call)'
        ' Also: zero gains, samples without events, derived samples, files recording a channel name twice (by position), override lists reused by the caller, tuple/ndarray argument forms.')
ASSUMPTIONS = ['law evaluated by the oracle in float64 with rtol 1e-12 (evaluation order only)',
               'oracle parses $PnE/$PnR/$PnG itself; a1=0 with a0!=0 read as 1']
MIN_CHECKS = {'quick': 8000, 'thorough': 150000}
REQUIRED_COUNTERS = ['chk:rfi', 'chk:history', 'chk:refusal', 'chk:form']


def spell(rng, s, pos, mode=None):
    mode = mode if mode is not None else int(rng.integers(3))
    if len(set(s.channels)) < len(s.channels):
        mode = 1                      # repeated channel names: by position only
    if mode == 0:
        return [s.channels[p] for p in pos]
    if mode == 1:
        return [int(p) for p in pos]
    return [s.channels[p] if rng.random() < 0.5 else (int(p) if rng.random() < 0.7 else int(p) - len(s.channels))
            for p in pos]


def rand_override(rng, k, Rs):
    """Rs: the file resolutions of the selected channels; an overriding resolution is kept within a
    factor 4 below the channel's own so that 10^(a0*x/r) stays finite (a0 <= 8)."""
    at = [None if rng.random() < 0.5 else
          ((0.0, 0.0) if rng.random() < 0.4 else (float(rng.choice([0.5, 1, 2.5, 4, 4.5, 8])), float(rng.choice([0.1, 1, 10]))))
          for _ in range(k)]
    # (incl. a gain of exactly zero: a specified gain, x/0, not an unspecified one)
    ag = [None if rng.random() < 0.5 else float(rng.choice([0.5, 1, 2, 3.7, 3.7, 0.3, 0.0])) for _ in range(k)]
    r = []
    for R in Rs:
        cands = [x for x in (256, 1000, 1023, 1024, 4096, 65536, 262144, R, R - 1, 3 * R) if x >= R // 4 and x > 0]
        r.append(None if rng.random() < 0.5 else int(rng.choice(cands)))
    return at, ag, r


def same(a, b):
    if np.asarray(a).tobytes() != np.asarray(b).tobytes():
        return False
    if hasattr(a, 'range'):
        ra = np.array([list(map(float, a.range(p_))) for p_ in range(a.shape[1])])      # by position
        rb = np.array([list(map(float, b.range(p_))) for p_ in range(b.shape[1])])
        return ra.shape == rb.shape and np.array_equal(ra, rb, equal_nan=True)
    return True


def run(ctx):
    F = core.import_flowcal()
    mon = monitors.Monitors(ctx, F)
    mon.attach_transform()
    to_rfi = F.transform.to_rfi
    path = os.path.join(ctx.tmpdir, 'c03.fcs')
    nsamp = 60 if ctx.tier == 'quick' else 8000
    for cid, rng in ctx.cases([('s', i) for i in range(nsamp)]):
        mon.cid = cid
        empty = rng.random() < 0.06          # a file / sample without events still has channels, settings and limits
        bign = int(rng.choice([65537, 140001, 300001])) if cid[1] % 30 == 7 else None      # tens of thousands of events (chunked / fast paths)
        if rng.random() < 0.8:
            spec = zoo.int_spec(rng, n=bign or (0 if empty else int(rng.integers(8, 60))), d=int(rng.integers(2, 7)) if not bign else 3,
                                res=int(rng.choice([1024, 1000, 10000])) if bign else None, all_log=bool(bign))     # big: log channels sharing one resolution
        else:
            spec = zoo.float_spec(rng, n=bign or (0 if empty else int(rng.integers(8, 40))), d=3 if bign else None)
            spec['pne'] = [str(rng.choice(['0,0', '4,1', '3,0'])) for _ in spec['widths']]
        dupnames = len(spec['names']) >= 3 and rng.random() < 0.12
        if dupnames:
            # a file recording the same channel name for two parameters (with their own settings): every column still
            # follows the law of its own parameter; requests are made by position only (a name would be ambiguous)
            j_ = int(rng.integers(1, len(spec['names'])))
            spec['names'] = list(spec['names'])
            spec['names'][j_] = spec['names'][0]
        s = zoo.write_and_load(F, spec, path)
        dtag = 'fresh'
        if rng.random() < 0.3:
            s, dtag = zoo.derive(rng, s, keep_channels=True)     # a sample in the middle of an analysis (sliced, copied, pickled ...)
        if s.shape[0] and rng.random() < 0.25:
            # values that went through arithmetic before the conversion (dithered / de-binned counts): fractional values
            # inside the detector range follow the same law
            s, atag = zoo.arith(rng, s)
            dtag += '+' + atag
            ctx.counters['chk:arith-derived'] += 1
        D = s.shape[1]
        plain = np.array(np.asarray(s))
        ncalls = 12
        for c in range(ncalls):
            k = int(rng.integers(1, D + 1))
            pos = [int(x) for x in rng.permutation(D)[:k]]
            chans = spell(rng, s, pos)
            use_ov = rng.random() < 0.5
            at, ag, r = rand_override(rng, k, [spec['ranges'][p] for p in pos]) if use_ov else (None, None, None)
            if use_ov and rng.random() < 0.3:
                at = None
            if use_ov and rng.random() < 0.3:
                ag = None
            if use_ov and rng.random() < 0.3:
                r = None
            scalar_call = (k == 1 and rng.random() < 0.5)
            if scalar_call:
                o = core.attempt(to_rfi, s, chans[0], at[0] if at else None, ag[0] if ag else None, r[0] if r else None)
            else:
                o = core.attempt(to_rfi, s, chans, at, ag, r)
            if not ctx.check(not o.raised, 'rfi:valid-call-refused', cid, exc=core.exc_str(o.exc) if o.raised else None,
                             channels=chans, at=at, ag=ag, r=r):
                continue
            batch = o.value
            # ---- history clause: sequential in random order, alternative spelling
            order = [int(x) for x in rng.permutation(k)]
            seq = s
            alt = spell(rng, s, pos)
            for i in order:
                seq = to_rfi(seq, alt[i], at[i] if at else None, ag[i] if ag else None, r[i] if r else None)
            ctx.counters['chk:history'] += 1
            ctx.check(same(batch, seq), 'history:batch-vs-sequential', cid, channels=chans, alt=alt, order=order,
                      at=at, ag=ag, r=r)
            byname = to_rfi(s, spell(rng, s, pos, 0), at, ag, r)
            bypos = to_rfi(s, spell(rng, s, pos, 1), at, ag, r)
            ctx.check(same(batch, byname) and same(batch, bypos), 'history:name-vs-position', cid, channels=chans)
            # ---- the same call with the arguments in another legal form (tuple, ndarray, NumPy integers/strings):
            # a form the library refuses is observed only; a form it accepts must give the list form's answer
            fname, fch = core.pick_form(rng, chans)
            fat, fag, fr = at, ag, r
            if use_ov and rng.random() < 0.5:
                fat, fag, fr = (tuple(x) if x is not None else None for x in (at, ag, r))
                fname += '+tuple-overrides'
            o2 = core.attempt(to_rfi, s, fch, fat, fag, fr)
            ctx.counters['chk:form'] += 1
            if o2.raised:
                ctx.note('form-refused:' + fname)
            else:
                ctx.check(same(batch, o2.value), 'form:result-depends-on-argument-form', cid, form=fname, channels=chans,
                          at=at, ag=ag, r=r)
            # plain array with fully explicit settings gives the same values
            full_at = [s.amplification_type(p) if (not at or at[i] is None) else at[i] for i, p in enumerate(pos)]
            full_r = [s.resolution(p) if (not r or r[i] is None) else r[i] for i, p in enumerate(pos)]
            full_ag = [(s.amplifier_gain(p) if (not ag or ag[i] is None) else ag[i]) for i, p in enumerate(pos)]
            parr = to_rfi(plain, pos, full_at, full_ag, full_r)
            ctx.check(np.asarray(parr).tobytes() == np.asarray(batch).tobytes(), 'history:array-vs-sample', cid,
                      channels=chans)
            kinds = set('log' if a[0] else 'lin' for a in full_at)
            ctx.case_done(class_key=('call', spec['datatype'], 'scalar' if scalar_call else 'list',
                                     'ov' if use_ov else 'file', '+'.join(sorted(kinds)), min(k, 4)),
                          nontrivial=len(kinds) == 2 or use_ov,
                          distinct_key=core.digest(cid, c),
                          sample={'channels': chans, 'amplification_type': at, 'amplifier_gain': ag, 'resolution': r,
                                  'file_pne': spec['pne'], 'file_png': spec['png'], 'ranges': spec['ranges']} if c == 0 and cid[1] < 3 else None)
        # ---- default: all channels
        o = core.attempt(to_rfi, s)
        ctx.check(not o.raised, 'rfi:valid-call-refused', cid, exc=core.exc_str(o.exc) if o.raised else None, channels=None)
        # ---- refusal clause ---------------------------------------------------
        k = int(rng.integers(2, D + 1)) if D >= 2 else 1
        pos = [int(x) for x in rng.permutation(D)[:k]]
        chans = spell(rng, s, pos)
        bads = []
        for which in range(3):
            for badlen in (k - 1, k + 1):
                a = [[(0.0, 0.0)] * k, [1.0] * k, [1024] * k]
                lst = a[which]
                a[which] = (lst + lst)[:badlen]
                bads.append((a, 'len%+d@%d' % (badlen - k, which)))
            a = [None, None, None]
            a[which] = [(4.0, 1.0), 2.0, 1024][which] if which else None
            if which:
                bads.append((a, 'scalar-for-list@%d' % which))
        # the same with the channel selection left at its default (all channels)
        for which in range(3):
            for badlen in (D - 1, D + 1):
                a = [[(0.0, 0.0)] * D, [1.0] * D, [1024] * D]
                a[which] = (a[which] + a[which])[:badlen]
                o = core.attempt(to_rfi, s, None, a[0], a[1], a[2])
                ctx.counters['chk:refusal'] += 1
                if ctx.check(o.raised, 'refusal:inconsistent-lengths-accepted', cid, what='len%+d@%d (channels omitted)' % (badlen - D, which), args=a):
                    ctx.refusal('len-default-channels:' + type(o.exc).__name__)
        for a, what in bads:
            o = core.attempt(to_rfi, s, chans, a[0], a[1], a[2])
            ctx.counters['chk:refusal'] += 1
            if ctx.check(o.raised, 'refusal:inconsistent-lengths-accepted', cid, what=what, channels=chans, args=a):
                ctx.refusal(what.split('@')[0] + ':' + type(o.exc).__name__)
        for bad in ('nope', D, -D - 1):
            o = core.attempt(to_rfi, s, [bad])
            ctx.check(o.raised, 'refusal:unknown-channel-accepted', cid, channel=bad)
        # plain array without amplification type must be refused
        o = core.attempt(to_rfi, plain, pos)
        ctx.check(o.raised, 'refusal:array-without-settings-accepted', cid)
        # history: the caller edits its own sample in place between two identical requests (each call is judged in situ
        # against the law, on the values the sample holds at that moment)
        if s.shape[0] and rng.random() < 0.5:
            s2 = s.copy()
            req = spell(rng, s2, pos)
            o1 = core.attempt(to_rfi, s2, req)
            etag = zoo.edit_in_place(rng, s2)
            o2 = core.attempt(to_rfi, s2, req)
            o3 = core.attempt(to_rfi, s2.copy(), req)
            ctx.counters['chk:history:edit-in-place'] += 1
            if not o2.raised and not o3.raised:
                ctx.check(same(o2.value, o3.value), 'history:answer-of-earlier-values', cid, edit=etag, channels=req)
        ctx.case_done(class_key=('refusals',), nontrivial=True, distinct_key=core.digest(cid, 'ref'))
    # ---- exhaustive subset/order block on one 4-channel sample ------------------
    for cid, rng in ctx.cases([('perm', i) for i in range(2 if ctx.tier == 'quick' else 12)]):
        mon.cid = cid
        spec = zoo.int_spec(rng, n=12, d=4)
        s = zoo.write_and_load(F, spec, path)
        ref = {}
        for k in range(1, 5):
            for pos in itertools.permutations(range(4), k):
                out = to_rfi(s, list(pos))
                key = tuple(sorted(pos))
                if key in ref:
                    ctx.counters['chk:history'] += 1
                    ctx.check(same(out, ref[key]), 'history:order-dependence', cid, pos=list(pos))
                else:
                    ref[key] = out
                ctx.case_done(class_key=('perm-block', k), nontrivial=True, distinct_key=core.digest(cid, pos))
    # the repository's own tests as a workload under the same monitors (their assertions are not the oracle)
    from rv import suite_workload
    suite_workload.run_repo_suite(ctx, mon, modules=('test_transform.py',))
    mon.detach()
