"""C04 - channel metadata stays aligned with columns under every indexing expression.

Shape B: every key of the must-support grammar (exhaustive for small shapes) is executed against the real sample and
against the model "plain ndarray + list of per-column records"; values, metadata (seven views) and scalar-ness are
compared; chains of up to three indexings; assignment through the same keys.  Shape C: alignment invariant on every
2-D sample returned by FCSData.__getitem__ (class attribute rebound, so it also fires inside NumPy's own indexing).
"""
import itertools
import os

import numpy as np

from rv import core, zoo, monitors

ANCHORS = ['FCSData.__getitem__', 'FCSData.__setitem__', 'FCSData.__array_finalize__']      # functions the property is anchored in: never entered => inconclusive
LEVEL = 'exploration'
LEVEL_TEXT = "Exhaustive enumeration of the must-support index grammar for small shapes against the executable model (ndarray + per-column records), chains of three indexings, assignment, and an alignment invariant hooked on __getitem__ that also fires inside NumPy's own indexing and the pipelines. Exploration (exhaustive over the key grammar for the listed shapes)."
TECHNIQUE = 'trace comparison against an executable model (ndarray + per-column records) + alignment invariant hooked on __getitem__'
RULE = ('small generated samples (N in 1..5, D in 1..4, distinct metadata in every attribute per column) x the full '
        'product rows {int,-int,slices incl. negative steps and empty,[ints] incl. repeats and empty,bool mask list/array,'
        'Ellipsis} x cols {absent,int,-int,name,slice,list/tuple mixing names and ints,single-element list,Ellipsis} '
        '(exhaustive), other forms (bool column lists, NumPy-integer positions, int arrays, None/newaxis, nested lists, '
        '1-tuples, unknown names, out-of-range positions), chains of <=3 indexings, assignment; non-trivial = column key '
        'reorders, repeats or drops columns; distinct = (shape, key)'
        ' Also: files recording a channel name twice (positional keys), name-based warm-up queries before the judged key, chains biased to rearrange-then-name.')
ASSUMPTIONS = ['NumPy indexing of the plain array is the value oracle', 'results with ndim >= 3 are not judged',
               'sub-indexing of 1-D event vectors: values compared, metadata observed only']
MIN_CHECKS = {'quick': 20000, 'thorough': 400000}
EXHAUSTIVE = {'quick': True, 'thorough': True}
REQUIRED_COUNTERS = ['chk:getitem', 'chk:setitem', 'chk:chain', 'chk:other-forms', 'chk_alignment_invariant']


def row_keys(N):
    ks = list(range(N)) + [-i for i in range(1, N + 1)]
    ks += [np.int64(0), np.int64(N - 1), np.int32(-1), np.intp(0)]          # NumPy integers as event positions (argmax, flatnonzero ...)
    ks += [slice(None), slice(0, N), slice(1, None), slice(None, -1), slice(None, None, 2), slice(None, None, -1),
           slice(N, None, -2), slice(N, 0), slice(1, 1), slice(-2, None), slice(0, N, 3)]
    ks += [[0], [N - 1, 0], [0, 0, N - 1], [], list(range(N))[::-1], [-1, 0]]
    m = [(i % 2 == 0) for i in range(N)]
    ks += [m, np.array(m), [True] * N, np.zeros(N, dtype=bool), np.array([i for i in range(N) if i != 1], dtype=int)]
    ks += [Ellipsis]
    return ks


ABSENT = object()


def col_keys(D, names):
    ks = [ABSENT] + list(range(D)) + [-i for i in range(1, D + 1)] + list(names)
    ks += [slice(None), slice(0, D), slice(1, None), slice(None, None, -1), slice(None, None, 2), slice(D, 0), slice(-1, None)]
    ks += [[0], [names[0]], [names[-1], 0], [D - 1, names[0], -1], list(range(D))[::-1], [names[i] for i in range(D)],
           [0, 0], tuple([names[-1], 0]), (D - 1,), []]
    # every ordered pair of positions, negative ones included (runs like [-2, -1] and [-1, 0] are where a resolved list is
    # most easily mistaken for a slice), alternately spelled as list / tuple and with a name for the second entry;
    # and every run of three adjacent positions crossing zero
    for i, a in enumerate(range(-D, D)):
        for j, b in enumerate(range(-D, D)):
            k = [a, names[b] if (i + j) % 3 == 2 else b]
            ks.append(tuple(k) if (i + j) % 4 == 3 else k)
    if D >= 3:
        for a in range(-D, D - 2):
            ks.append([a, a + 1, a + 2])
    ks += [Ellipsis]
    return ks


def translate(ck, names):
    """model-side translation of a column key: names -> positions."""
    if isinstance(ck, str):
        return names.index(ck)
    if isinstance(ck, (list, tuple)):
        return [translate(c, names) for c in ck]
    return ck


def model_cols(ck, D):
    """positions (in order) of the columns a translated column key selects, or None = all."""
    if ck is ABSENT or ck is Ellipsis:
        return list(range(D))
    if isinstance(ck, slice):
        return list(range(D))[ck]
    if isinstance(ck, list):
        return [c % D for c in ck]
    return [ck % D]


def freeze(k):
    if isinstance(k, np.ndarray):
        return ('nd', k.dtype.kind, tuple(k.tolist()))
    if isinstance(k, list):
        return ('l',) + tuple(freeze(x) for x in k)
    if isinstance(k, tuple):
        return ('t',) + tuple(freeze(x) for x in k)
    if isinstance(k, slice):
        return ('s', k.start, k.stop, k.step)
    if k is ABSENT:
        return 'ABSENT'
    if k is Ellipsis:
        return '...'
    return k


def mk_key(rk, ck):
    return rk if ck is ABSENT else (rk, ck)


def judge_get(ctx, cid, s, A, recs, names, rk, ck, mech='getitem', must_support=True):
    """Execute one key against sample and model; returns (result, model_array, model_records) or None."""
    D = A.shape[1]
    key = mk_key(rk, ck)
    tck = translate(ck, names) if ck is not ABSENT else ABSENT
    mkey = mk_key(rk, list(tck) if isinstance(tck, tuple) else tck)
    want = core.attempt(lambda: A[mkey])
    got = core.attempt(lambda: s[key])
    d = dict(key=monitors.key_shape(key), key_repr=repr(freeze(key))[:200], shape=list(A.shape))
    ctx.counters['chk:' + mech.split(':')[0]] += 1
    if want.raised:
        # NumPy refuses the translated key: the sample must not return anything else
        ctx.check(got.raised, mech + ':numpy-refused-key-accepted', cid, **d)
        return None
    if got.raised:
        if must_support:
            ctx.check(False, mech + ':supported-key-refused', cid, exc=core.exc_str(got.exc), **d)
        else:
            ctx.refusal(type(got.exc).__name__)
        return None
    W, G = want.value, got.value
    if np.ndim(W) == 0:
        ctx.check(not isinstance(G, np.ndarray) and G == W, mech + ':scalar', cid, got_type=type(G).__name__, **d)
        return None
    Ga = np.asarray(G)
    if not ctx.check(Ga.shape == W.shape and Ga.dtype == W.dtype and Ga.tobytes() == W.tobytes(), mech + ':values', cid,
                     got_shape=list(Ga.shape), want_shape=list(W.shape), **d):
        return None
    cols = model_cols(tck, D)
    mrecs = [recs[c] for c in cols]
    if W.ndim >= 3:
        ctx.note('result with ndim >= 3 (not judged)')
        return None
    if not hasattr(G, 'channels'):
        ctx.check(not must_support, mech + ':sample-class-lost', cid, **d)
        return None
    gre = zoo.per_channel(G)
    ok = gre == mrecs
    ctx.check(ok, mech + ':metadata', cid, got=[r[0] for r in gre], want=[r[0] for r in mrecs],
              first_diff=next(((a, b) for a, b in zip(gre, mrecs) if a != b), None) if len(gre) == len(mrecs) else 'count', **d)
    return G, W, mrecs


def run(ctx):
    F = core.import_flowcal()
    mon = monitors.Monitors(ctx, F)
    mon.attach_alignment()
    path = os.path.join(ctx.tmpdir, 'c04.fcs')
    shapes = [(4, 3), (1, 1), (3, 1), (2, 4)] if ctx.tier == 'quick' else \
        [(n, d) for n in range(1, 6) for d in range(1, 5)]
    kinds = ['int', 'float', 'int-dupnames']       # 'int-dupnames': a file recording the same channel name for two parameters
    for cid, rng in ctx.cases([('grid', n, d, k) for (n, d) in shapes for k in kinds]):
        mon.cid = cid
        _, N, D, kind = cid
        dup = kind == 'int-dupnames'
        if dup:
            if D < 2:
                continue
            kind = 'int'
        spec = zoo.int_spec(rng, n=N, d=D, limits=False) if kind == 'int' else zoo.float_spec(rng, n=N, d=D)
        if dup:
            spec['names'] = list(spec['names'])
            spec['names'][-1] = spec['names'][0]      # columns 0 and D-1 share a name but nothing else
        # distinct metadata in EVERY attribute of every column
        if kind == 'int':
            spec['ranges'] = [256 * (j + 1) for j in range(D)]
            spec['widths'] = [32] * D
            spec['events'] = [[(7 * i + 3 * j + 1) % spec['ranges'][j] for j in range(D)] for i in range(N)]
        spec['pne'] = ['%d,%d' % (j + 1, j + 1) for j in range(D)]
        spec['png'] = [str(1.5 + j) for j in range(D)]
        spec['pnv'] = [str(300 + j) for j in range(D)]
        spec['pns'] = ['L%d' % j for j in range(D)]
        s = zoo.write_and_load(F, spec, path)
        if kind == 'int' and rng.random() < 0.5:
            s = F.transform.to_rfi(s)        # distinct non-trivial ranges too
        A = np.array(np.asarray(s))
        recs = zoo.per_channel(s)
        names = list(s.channels)
        rks, cks = row_keys(N), col_keys(D, names)
        if dup:
            # a repeated name cannot address its second column: positional column keys only (each column keeps ITS OWN metadata)
            has_name = lambda k: isinstance(k, str) or (isinstance(k, (list, tuple)) and any(isinstance(x, str) for x in k))
            cks = [k for k in cks if not has_name(k)]
        # ---- exhaustive grammar -------------------------------------------------
        for rk in rks:
            for ck in cks:
                r = judge_get(ctx, cid, s, A, recs, names, rk, ck)
                tck = translate(ck, names) if ck is not ABSENT else ABSENT
                cols = model_cols(tck, D)
                ctx.case_done(class_key=('get', monitors.key_shape(mk_key(rk, ck))), nontrivial=cols != list(range(D)),
                              distinct_key=core.digest((N, D, kind), freeze(rk), freeze(ck)),
                              sample={'shape': [N, D], 'key': repr(freeze(mk_key(rk, ck)))} if (isinstance(rk, int) and rk == -1 and isinstance(ck, list) and len(ck) == 3) else None)
                # ---- assignment through the same key ---------------------------------
                if ck is not ABSENT or True:
                    s2 = s.copy()
                    A2 = A.copy()
                    key = mk_key(rk, ck)
                    mkey = mk_key(rk, list(tck) if isinstance(tck, tuple) else tck)
                    val = A.max() + 17 if kind == 'float' else 1
                    w = core.attempt(lambda: A2.__setitem__(mkey, val))
                    g = core.attempt(lambda: s2.__setitem__(key, val))
                    ctx.counters['chk:setitem'] += 1
                    d = dict(key=monitors.key_shape(key), key_repr=repr(freeze(key))[:200], shape=[N, D])
                    if w.raised:
                        ctx.check(g.raised, 'setitem:numpy-refused-key-accepted', cid, **d)
                    elif ctx.check(not g.raised, 'setitem:supported-key-refused', cid, exc=core.exc_str(g.exc) if g.raised else None, **d):
                        ctx.check(np.asarray(s2).tobytes() == A2.tobytes(), 'setitem:cells', cid, **d)
                        ctx.check(zoo.per_channel(s2) == recs, 'setitem:metadata-changed', cid, **d)
        # ---- unknown names / out-of-range positions must raise --------------------
        for bad in ('nope', '', names[0].lower() if names[0].lower() != names[0] else names[0] + 'x', D, -D - 1, D + 5):
            for form in (bad, [bad], [0, bad], (bad,)):
                for rk in (slice(None), 0, [0]):
                    o = core.attempt(lambda: s[rk, form])
                    ctx.counters['chk:other-forms'] += 1
                    if ctx.check(o.raised, 'unknown-channel-accepted', cid, key=repr((freeze(rk), freeze(form)))):
                        ctx.refusal('unknown:' + type(o.exc).__name__)
                    s2 = s.copy()
                    o = core.attempt(lambda: s2.__setitem__((rk, form), 1))
                    ctx.check(o.raised, 'unknown-channel-accepted:setitem', cid, key=repr((freeze(rk), freeze(form))))
        # ---- other forms: refused, or non-sample, or aligned sample --------------------
        boolcols = [[(j % 2 == 0) for j in range(D)], [True] * D, np.array([(j % 2 == 1) for j in range(D)]), True, False]
        others = [(slice(None), b) for b in boolcols] + [(0, b) for b in boolcols[:2]]
        others += [(slice(None), np.int64(0)), (slice(None), np.int32(D - 1)), (0, np.int64(0)),
                   (slice(None), np.array([0, D - 1])), (slice(None), np.array([0])), (slice(None), [np.int64(0)]),
                   (slice(None), None), (None, slice(None)), (None, 0), (0, None), (slice(None), 0, None), (None, slice(None), 0),
                   (slice(None), slice(None), None), (0, 0, None),
                   (slice(None), [[0, D - 1]]), (slice(None), [[0], [D - 1]]), (slice(None), ([0],)),
                   (0,), (slice(None),), ([0],), (Ellipsis,), (-1,), (slice(None), 0.0), (slice(None), [0.0])]
        for key in others:
            got = core.attempt(lambda: s[key])
            ctx.counters['chk:other-forms'] += 1
            d = dict(key=monitors.key_shape(key), key_repr=repr(freeze(key))[:200], shape=[N, D])
            cls = 'refused'
            if not got.raised:
                G = got.value
                if not isinstance(G, np.ndarray) or not hasattr(G, 'channels'):
                    cls = 'non-sample'
                elif G.ndim >= 3 or G.ndim == 0:
                    cls = 'ndim%d (not judged)' % G.ndim
                else:
                    # what plain NumPy does with the same key decides which columns are there
                    W = core.attempt(lambda: A[key])
                    cls = 'sample'
                    if W.raised:
                        ctx.check(False, 'other-forms:numpy-refused-key-accepted', cid, **d)
                    else:
                        okv = np.asarray(G).shape == W.value.shape and np.asarray(G).tobytes() == W.value.tobytes()
                        ctx.check(okv, 'other-forms:values', cid, **d)
                        # the columns a two-part key addresses, asked of NumPy itself on an index vector (1-D and 2-D results)
                        if isinstance(key, tuple) and len(key) == 2 and not any(k is None for k in key):
                            cw = core.attempt(lambda: np.arange(D)[key[1]])
                            if not cw.raised and np.ndim(cw.value) <= 1:
                                cols_ = [int(c) for c in np.atleast_1d(cw.value)]
                                ctx.counters['chk:other-forms:by-index-vector'] += 1
                                ctx.check(zoo.per_channel(G) == [recs[c] for c in cols_], 'other-forms:metadata', cid,
                                          got=list(G.channels), want=[names[c] for c in cols_], ndim=int(G.ndim), **d)
                        if G.ndim == 2:
                            ncol = G.shape[1]
                            # identify the columns by value (columns of A are distinct by construction when N >= 2)
                            al, lens = monitors.aligned(G)
                            ctx.check(al, 'other-forms:metadata-count', cid, metadata_counts=lens, ncol=ncol, **d)
                            if al and N >= 2 and G.shape[0] == N:
                                idx = [next((c for c in range(D) if np.array_equal(A[:, c], np.asarray(G)[:, j])), None)
                                       for j in range(ncol)]
                                if None not in idx:
                                    ctx.check(zoo.per_channel(G) == [recs[c] for c in idx], 'other-forms:metadata', cid,
                                              got=list(G.channels), want=[names[c] for c in idx], **d)
            ctx.note('other form %s -> %s' % (monitors.key_shape(key), cls))
            ctx.case_done(class_key=('other', monitors.key_shape(key), cls), nontrivial=True,
                          distinct_key=core.digest((N, D, kind), 'other', freeze(key)))
    # ---- chains of up to three indexings ------------------------------------------------
    nchain = 700 if ctx.tier == 'quick' else 120000
    for cid, rng in ctx.cases([('chain', i) for i in range(nchain)]):
        mon.cid = cid
        N, D = int(rng.integers(1, 6)), int(rng.integers(1, 5))
        wide = cid[1] % 10 == 3
        if wide:
            D = int(rng.choice([17, 24, 40]))          # many channels (name tables, caches and fast paths engage only here)
        spec = zoo.int_spec(rng, n=N, d=D, limits=False, names=['P%02d-%s' % (j, 'AHW'[j % 3]) for j in range(D)] if wide else None)
        spec['pnv'] = [str(300 + j) for j in range(D)]
        spec['pns'] = ['L%d' % j for j in range(D)]
        spec['png'] = [str(1.5 + j) for j in range(D)]
        s = zoo.write_and_load(F, spec, path)
        A = np.array(np.asarray(s))
        recs = zoo.per_channel(s)
        names = list(s.channels)
        cur, curA, currecs, curnames = s, A, recs, names
        trace = []
        for step in range(3):
            n_, d_ = curA.shape
            rks, cks = row_keys(n_), col_keys(d_, curnames)
            rk = rks[int(rng.integers(len(rks)))]
            ck = cks[int(rng.integers(len(cks)))]
            # (bias toward the sequences that rearrange columns without changing their number, followed by a name)
            if d_ >= 2 and rng.random() < 0.2:
                ck = [slice(None, None, -1), list(range(d_))[::-1], [curnames[i] for i in range(d_)][::-1]][int(rng.integers(3))]
                rearranged = True
            elif step and trace and trace[-1].startswith('rearranged') and rng.random() < 0.7:
                ck = curnames[int(rng.integers(d_))] if rng.random() < 0.6 else [curnames[int(rng.integers(d_))], 0]
                rearranged = False
            else:
                rearranged = False
            # history on the same object: a few name-based queries before the judged expression (a lookup table built by
            # one query must not be handed to, or survive in, objects whose columns are arranged differently)
            if len(set(curnames)) == len(curnames) and rng.random() < 0.6:
                for _ in range(int(rng.integers(1, 3))):
                    nm_ = curnames[int(rng.integers(len(curnames)))]
                    w_ = int(rng.integers(3))
                    core.attempt(lambda: (cur[:, nm_], cur.range(nm_), cur.detector_voltage([nm_]))[w_])
                trace.append('warm-up')
            trace.append(('rearranged ' if rearranged else '') + repr(freeze(mk_key(rk, ck)))[:80])
            ctx.counters['chk:chain'] += 1
            r = judge_get(ctx, cid, cur, curA, currecs, curnames, rk, ck, mech='chain')
            if r is None:
                break
            G, W, mrecs = r
            if W.ndim != 2 or W.shape[0] == 0 or W.shape[1] == 0:
                break
            if len(set(m[0] for m in mrecs)) != len(mrecs):
                break            # repeated channel names: name lookup ambiguous, stop the chain
            cur, curA, currecs, curnames = G, W, mrecs, [m[0] for m in mrecs]
        ctx.case_done(class_key=('chain', len(trace)), nontrivial=len(trace) >= 2, distinct_key=core.digest(cid),
                      sample={'chain': trace} if cid[1] < 3 else None)
    # keys NumPy itself generated while the monitors were attached
    for ks, n in list(mon.keys_seen.items())[:60]:
        ctx.note('key shape seen by __getitem__: ' + ks, n)
    # the repository's own tests as a workload under the same monitors (their assertions are not the oracle)
    from rv import suite_workload
    suite_workload.run_repo_suite(ctx, mon, modules=('test_io.py', 'test_stats.py', 'test_transform.py'))
    mon.detach()
