"""C18 - the logicle scale is a strictly increasing bijection with an accurate inverse.

Monitor: contract on plot._LogicleTransform (construction, transform_non_affine, inverted) and _LogicleScale against an
independent reference (p by bisection, biexponential in extended precision, documented derivation rules).
"""
import os

import numpy as np

from rv import core, zoo
from rv.refmodels import logicle as ref

ANCHORS = ['_LogicleTransform.__init__', '_LogicleTransform.transform_non_affine', '_InterpolatedInverseTransform.transform_non_affine', '_LogicleScale.limit_range_for_scale']      # functions the property is anchored in: never entered => inconclusive
LEVEL = 'exploration'
LEVEL_TEXT = 'Contract on the logicle transform against an independent reference (bisection root, extended-precision biexponential): forward values, monotonicity, zero at W, inverse round trip and monotonicity, documented derivation rules from data, refusals, and a real matplotlib axis. Exploration over a lattice + random triples.'
TECHNIQUE = 'runtime contract on the logicle transform vs an independent extended-precision biexponential and bisection root'
RULE = ('lattice T in {1,10,1023,2^18,1e6,1e8,1e-3,1e100,1e300,1.7e308} x M in {0.2..12} x W/M in {0,1e-9,..,1.5} plus random triples; display '
        'coordinates on a 2001-point grid of [0,M]; invalid triples; parameters derived from data sets with/without '
        'negative events, single/list, with/without known range; a real matplotlib axis; non-trivial = W > 0; '
        'distinct = digest(T,M,W | data)'
        ' Also: extreme T up to 1.7e308, data without a positive value (refusal), tiny negative events (W clamps at 0), explicit T/M/W overrides with data, numeric forms of inputs and parameters.')
ASSUMPTIONS = ['forward values compared at rtol 1e-10 plus an absolute term scaled by T*10^-(M-W)*(1+p^2) (cancellation near s=W)']
MIN_CHECKS = {'quick': 6000, 'thorough': 150000}
REQUIRED_COUNTERS = ['chk:forward', 'chk:inverse', 'chk:derive', 'chk:refusal', 'chk:axis', 'chk:form']


def check_triple(ctx, cid, P, T, M, W):
    with np.errstate(all='ignore'):
        p_ = ref.solve_p(W)
        top = float(T) * 10.0 ** (W - M) * (1 + p_ * p_) if (W - M) < 300 else float('inf')
    if not np.isfinite(top) or top > 1e306:
        ctx.note('triple whose function values exceed the double range (not judged)')
        return
    o = core.attempt(P._LogicleTransform, T=T, M=M, W=W)
    d = dict(T=T, M=M, W=W)
    if not ctx.check(not o.raised, 'valid-triple-refused', cid, exc=core.exc_str(o.exc) if o.raised else None, **d):
        return
    t = o.value
    ctx.check((t.T, t.M, t.W) == (T, M, W), 'forward:parameters-not-kept', cid, got=[t.T, t.M, t.W], **d)
    s = np.linspace(0, M, 2001 if cid[-1] % 40 != 3 else 200001)      # (now and then a long array: chunked / tabulated fast paths)
    x = np.asarray(t.transform_non_affine(s), dtype=float)
    p = ref.solve_p(W)
    xr = ref.forward(s, T, M, W, p)
    scale = float(T) * 10 ** (-(M - W)) * (1 + p * p)
    err = np.abs(x - xr.astype(float))
    tol = 1e-10 * np.abs(xr.astype(float)) + 1e-10 * scale
    ctx.check(bool(np.all(err <= tol)), 'forward:biexponential', cid, worst=float(np.max(err / tol)), p=p, **d)
    ctx.check(bool(np.all(np.diff(x) > 0)), 'forward:not-strictly-increasing', cid, **d)
    if W <= M:
        x0 = float(t.transform_non_affine(np.array([W]))[0])
        ctx.check(abs(x0) <= 1e-9 * scale, 'forward:W-not-mapped-to-zero', cid, x_at_W=x0, **d)
    inv = t.inverted()
    with np.errstate(all='ignore'):
        sb = np.asarray(inv.transform_non_affine(x), dtype=float)
    ctx.counters['chk:inverse'] += 1
    worst = float(np.max(np.abs(sb - s)))
    ctx.check(worst <= 1e-4 * M, 'inverse:round-trip-error', cid, worst_over_M=worst / M, **d)
    # inverse non-decreasing on a fine data grid (also between the tabulated nodes)
    xs = np.linspace(x[0], x[-1], 4001)
    si = np.asarray(inv.transform_non_affine(xs), dtype=float)
    ctx.check(bool(np.all(np.diff(si) >= 0)), 'inverse:decreasing', cid, **d)
    ctx.check(inv.inverted() is t or isinstance(inv.inverted(), P._LogicleTransform), 'inverse:inverted-not-forward', cid, **d)
    # ---- the same numbers in another numeric form: integer-valued display coordinates as integer arrays / lists /
    # scalars, single precision, 2-D; integral parameters as Python / NumPy integers.  A refused form is observed
    # only; an accepted one must give the float64 answer (single precision: to single-precision accuracy).
    si_ = np.arange(0, int(np.floor(M)) + 1)
    want = np.asarray(t.transform_non_affine(si_.astype(np.float64)), dtype=float)
    # (integer-typed display coordinates are observed only: 10**s in a narrow integer type overflows by NumPy's
    # own rules, and the statement quantifies over parameter triples, not over integer display coordinates)
    forms = [('int64', si_.astype(np.int64), None), ('int32', si_.astype(np.int32), None),
             ('list-float', [float(v) for v in si_], 1e-12), ('big-endian', si_.astype('>f8'), 1e-12),
             ('float32', si_.astype(np.float32), 2e-5), ('2d', si_.astype(np.float64).reshape(-1, 1), 1e-12),
             ('non-contiguous', np.repeat(si_.astype(np.float64), 2)[::2], 1e-12)]
    for fname, v, rt in forms:
        ctx.counters['chk:form'] += 1
        with np.errstate(all='ignore'):
            o2 = core.attempt(t.transform_non_affine, v)
        if o2.raised:
            ctx.note('form-refused:forward:' + fname)
            continue
        got = np.asarray(o2.value, dtype=float).reshape(-1)
        if rt is None:
            if not (got.shape == want.shape and bool(np.all(np.abs(got - want) <= 1e-9 * np.abs(want) + 1e-9 * scale))):
                ctx.note('observed, not judged: integer-typed display coordinates give other values (%s)' % fname)
            continue
        ctx.check(got.shape == want.shape and bool(np.all(np.abs(got - want) <= rt * np.abs(want) + rt * scale)),
                  'form:forward-depends-on-input-form', cid, form=fname, **d)
    xi_ = np.unique(np.round(np.linspace(x[0], x[-1], 9)))
    xi_ = xi_[(xi_ >= x[0]) & (xi_ <= x[-1]) & (np.abs(xi_) < 2 ** 31)]
    if len(xi_):
        with np.errstate(all='ignore'):
            wanti = np.asarray(inv.transform_non_affine(xi_.astype(np.float64)), dtype=float)
            for fname, v in (('int64', xi_.astype(np.int64)), ('int32', xi_.astype(np.int32)), ('list-int', [int(q) for q in xi_]),
                             ('list-float', [float(q) for q in xi_])):
                ctx.counters['chk:form'] += 1
                o2 = core.attempt(inv.transform_non_affine, v)
                if o2.raised:
                    ctx.note('form-refused:inverse:' + fname)
                    continue
                got = np.asarray(o2.value, dtype=float).reshape(-1)
                ctx.check(got.shape == wanti.shape and bool(np.all(np.abs(got - wanti) <= 1e-9 * M)),
                          'form:inverse-depends-on-input-form', cid, form=fname, **d)
    integral = [float(v) == int(v) for v in (T, M, W)]
    if all(integral) and M >= 1 and T < 2 ** 62:
        for fname, conv in (('py-int', int), ('np-int64', np.int64), ('np-float64', np.float64)):
            ctx.counters['chk:form'] += 1
            o2 = core.attempt(P._LogicleTransform, T=conv(T), M=conv(M), W=conv(W))
            if o2.raised:
                ctx.note('form-refused:params:' + fname)
                continue
            with np.errstate(all='ignore'):
                o3 = core.attempt(o2.value.transform_non_affine, s)
            if o3.raised:
                ctx.note('form-refused:params:' + fname)
                continue
            got = np.asarray(o3.value, dtype=float)
            ctx.check(bool(np.all(np.abs(got - x) <= 1e-10 * np.abs(x) + 1e-10 * scale)), 'form:forward-depends-on-parameter-form',
                      cid, form=fname, **d)


def run(ctx):
    F = core.import_flowcal()
    P = F.plot
    import matplotlib
    import matplotlib.pyplot as plt
    Ts = [1, 10, 1023, 262144, 1e6, 1e8, 1e-3, 1e100, 1e300, 1.7e308]      # every T > 0 is a valid parameter
    Ms = [0.2, 1, 2.5, 4.5, 6, 8, 12]
    Wf = [0, 1e-9, 1e-3, 0.05, 0.11, 0.3, 0.5, 0.9, 1.5]
    lat = [(T, M, M * w) for T in Ts for M in Ms for w in Wf]
    n = len(lat) + (400 if ctx.tier == 'quick' else 40000)
    for cid, rng in ctx.cases([('t', i) for i in range(n)]):
        if cid[1] < len(lat):
            T, M, W = lat[cid[1]]
        else:
            T = float(10 ** rng.uniform(0, 8)) if rng.random() < 0.85 else float(10 ** rng.uniform(-3, 307))
            M = float(rng.uniform(0.2, 12))
            W = float(rng.choice([0, rng.uniform(0, 1.5 * M), rng.uniform(0, 0.3 * M)]))
        ctx.counters['chk:forward'] += 1
        check_triple(ctx, cid, P, T, M, W)
        ctx.case_done(class_key=('triple', 'W0' if W == 0 else ('W<=M' if W <= M else 'W>M'), 'lattice' if cid[1] < len(lat) else 'random'),
                      nontrivial=W > 0, distinct_key=core.digest(T, M, W),
                      sample=dict(T=T, M=M, W=W) if cid[1] in (40, 500) else None)
    # ---- invalid triples ----------------------------------------------------
    for cid, rng in ctx.cases([('bad', i) for i in range(60 if ctx.tier == 'quick' else 600)]):
        which = int(rng.integers(3))
        T, M, W = 262144.0, 4.5, 0.5
        if which == 0:
            T = float(rng.choice([0, -1, -1e5, -1e-9]))
        elif which == 1:
            M = float(rng.choice([0, -1, -4.5, -1e-9]))
        else:
            W = float(rng.choice([-1e-9, -0.5, -3]))
        o = core.attempt(P._LogicleTransform, T=T, M=M, W=W)
        ctx.counters['chk:refusal'] += 1
        if ctx.check(o.raised, 'refusal:invalid-triple-accepted', cid, T=T, M=M, W=W):
            ctx.refusal('TMW'[which] + ':' + type(o.exc).__name__)
        ctx.case_done(class_key=('invalid', 'TMW'[which]), nontrivial=True, distinct_key=core.digest(T, M, W))
    # ---- parameters derived from data ---------------------------------------------
    path = os.path.join(ctx.tmpdir, 'c18.fcs')
    for cid, rng in ctx.cases([('data', i) for i in range(150 if ctx.tier == 'quick' else 10000)]):
        kind0 = int(rng.integers(4))           # 3 = a list MIXING plain arrays (no range known) and samples (range known)
        nlist = int(rng.integers(1, 4)) if kind0 < 3 else int(rng.integers(2, 5))
        datas, ys, rk = [], [], []
        nonpos = kind0 == 0 and rng.random() < 0.3        # every data set of this case is without a positive value
        for li in range(nlist):
            kind = kind0 if kind0 < 3 else ([0, 2, 1][li] if li < 2 else int(rng.integers(3)))
            N = int(rng.integers(3, 80)) if cid[1] % 30 != 4 else int(rng.choice([70001, 150000]))
            if kind == 0:     # plain arrays (no range): 1-D or 2-D
                a = rng.normal(200, 400, size=(N, 3)) if rng.random() < 0.6 else np.abs(rng.normal(200, 400, size=(N, 3))) + 1
                ch = 1
                if nonpos:
                    # no positive value at all (all zero, or zero and negative): the derived T is not a valid parameter
                    a = np.zeros((N, 3)) if rng.random() < 0.5 else -np.abs(rng.normal(0, 50, size=(N, 3))) * (rng.random((N, 3)) < 0.5)
                elif rng.random() < 0.3:
                    # the most negative event is tiny (|r| < T*10^-M): the documented W is clamped at 0, never negative
                    a = np.abs(a) + 1
                    a[int(rng.integers(N)), ch] = -float(10 ** rng.uniform(-7, 0.5))
                if kind0 == 3:
                    a = np.abs(a) * float(rng.choice([0.2, 1.0]))      # (below the samples' range: the range must still count for those)
                if rng.random() < 0.3 and kind0 != 3:
                    datas.append(a[:, ch].copy())
                    one_d = True
                else:
                    datas.append(a)
                    one_d = False
                ys.append(a[:, ch])
                rk.append(None)
            else:
                spec = zoo.float_spec(rng, n=N, d=3, negatives=rng.random() < 0.6) if kind == 1 else zoo.int_spec(rng, n=N, d=3)
                s = zoo.write_and_load(F, spec, path)
                if kind == 2 and rng.random() < 0.5:
                    s = F.transform.to_rfi(s)
                ch = 1
                if rng.random() < 0.15:
                    # a sample without events (a gate kept nothing) still knows its channel range: it counts for T like any other
                    s = s[:0]
                    ctx.counters['chk:derive:empty-sample'] += 1
                datas.append(s)
                ys.append(np.asarray(s)[:, ch].astype(float))
                rk.append(float(s.range(ch)[1]))
        kind = kind0
        if kind == 0 and any(d.ndim == 1 for d in datas) and any(d.ndim == 2 for d in datas):
            datas = [d if d.ndim == 1 else d[:, 1].copy() for d in datas]
        chan = None if all(d.ndim == 1 for d in datas) else (1 if rng.random() < 0.5 or kind in (0, 3) else datas[0].channels[1])
        arg = datas[0] if (nlist == 1 and rng.random() < 0.5) else datas
        o = core.attempt(P._LogicleTransform, data=arg, channel=chan)
        Tr, Mr, Wr = ref.derive(ys, chan, rk)
        d = dict(kind=('array', 'float-sample', 'int-sample', 'mixed-arrays-and-samples')[kind], nlist=nlist, want=[Tr, Mr, Wr])
        ctx.counters['chk:derive'] += 1
        if Tr <= 0:
            ctx.check(o.raised, 'refusal:invalid-triple-accepted', cid, **d)
        elif ctx.check(not o.raised, 'derive:valid-data-refused', cid, exc=core.exc_str(o.exc) if o.raised else None, **d):
            t = o.value
            # single-precision samples legitimately carry float32 arithmetic into W (same policy as C12)
            f32 = any(dd.dtype.kind == 'f' and dd.dtype.itemsize == 4 for dd in datas)
            wtol = 5e-6 if f32 else 1e-12
            ok = abs(t.T - Tr) <= 1e-12 * abs(Tr) and abs(t.M - Mr) <= 1e-12 * Mr and abs(t.W - Wr) <= wtol * max(Wr, 1) and t.W >= 0
            ctx.check(ok, 'derive:documented-rules', cid, got=[float(t.T), float(t.M), float(t.W)], **d)
            # explicit overrides win over derivation
            o2 = core.attempt(P._LogicleTransform, data=arg, channel=chan, T=1000.0, M=5.0)
            if not o2.raised:
                ctx.check(o2.value.T == 1000.0 and o2.value.M == 5.0, 'derive:override-ignored', cid, **d)
                # the width still follows the documented rule, with the transform's OWN T and M: (M - log10(T/|r|))/2, never below 0
                W2 = 0.0
                for y in ys:
                    if np.any(y < 0):
                        W2 = max(W2, (5.0 - np.log10(1000.0 / abs(float(np.min(y))))) / 2)
                ctx.check(abs(o2.value.W - W2) <= wtol * max(W2, 1) and o2.value.W >= 0, 'derive:documented-rules', cid,
                          got=[float(o2.value.T), float(o2.value.M), float(o2.value.W)], want_W=W2, overrides='T=1000, M=5', **d)
            o3 = core.attempt(P._LogicleTransform, data=arg, channel=chan, W=0.75)
            if not o3.raised:
                ctx.check(o3.value.W == 0.75 and abs(o3.value.T - Tr) <= 1e-12 * abs(Tr) and abs(o3.value.M - Mr) <= 1e-12 * Mr,
                          'derive:override-ignored', cid, overrides='W=0.75', got=[float(o3.value.T), float(o3.value.M), float(o3.value.W)], **d)
        ctx.case_done(class_key=('derived', d['kind'], 'neg' if any(np.any(y < 0) for y in ys) else 'nonneg', nlist),
                      nontrivial=any(np.any(y < 0) for y in ys), distinct_key=core.digest(cid))
    # multidimensional data without channel must be refused
    if ctx.shard == 0:
        o = core.attempt(P._LogicleTransform, data=np.ones((4, 2)))
        ctx.check(o.raised, 'refusal:multidim-without-channel-accepted', ('nochan',))
    # ---- a real matplotlib axis ----------------------------------------------------
    for cid, rng in ctx.cases([('axis', i) for i in range(12 if ctx.tier == 'quick' else 150)]):
        T = float(10 ** rng.uniform(2, 6))
        M = float(rng.uniform(3, 6))
        W = float(rng.uniform(0, 1.2))
        fig = plt.figure()
        ax = fig.add_subplot(111)
        o = core.attempt(lambda: (ax.set_xscale('logicle', T=T, M=M, W=W), ax.set_yscale('logicle', T=T, M=M, W=W)))
        ctx.counters['chk:axis'] += 1
        if ctx.check(not o.raised, 'axis:set-scale-refused', cid, exc=core.exc_str(o.exc) if o.raised else None, T=T, M=M, W=W):
            ax.plot([-50, 10, 100, T / 2], [1, 2, 3, 4])
            ax.set_xlim(-1e12, 1e12)
            lo, hi = ax.get_xlim()
            xmin = float(ref.forward(0.0, T, M, W))
            xmax = float(ref.forward(M, T, M, W))
            ok = lo >= xmin - 1e-6 * abs(xmin) and hi <= xmax + 1e-6 * abs(xmax)
            ctx.check(ok, 'axis:limits-not-clipped', cid, lim=[lo, hi], domain=[xmin, xmax])
            o2 = core.attempt(fig.canvas.draw)
            ctx.check(not o2.raised, 'axis:draw-failed', cid, exc=core.exc_str(o2.exc) if o2.raised else None)
            tr = ax.xaxis.get_transform()
            v = np.array([0.0, 10.0, T / 3])
            sv = np.asarray(tr.transform_non_affine(v), dtype=float)
            back = np.asarray(ref.forward(sv, T, M, W), dtype=float)
            ctx.check(bool(np.all(np.abs(back - v) <= 1e-3 * np.maximum(np.abs(v), T * 10 ** -(M - W)) + 1e-3 * T * 10 ** -(M - W) * 10)),
                      'axis:transform-not-logicle', cid, v=v, back=back)
        plt.close(fig)
        ctx.case_done(class_key=('axis',), nontrivial=True, distinct_key=core.digest(T, M, W))
