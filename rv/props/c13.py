"""C13 - no call changes its inputs, and results share no state with them.

(i) generic purity monitor on EVERY public function of io/transform/gate/stats/mef/plot and every public FCSData method
(enumerated with inspect at attach time): fingerprint of each argument (values, dtype, every metadata view, container
identity and member identity) before == after, also for default arguments; driven by call templates covering array vs
sample, integer vs float, every scale, scalar vs list arguments, list-valued bins, dict-valued parameters, population
lists, and by the MEF calibration with plots.  (ii) aliasing driver: mutate result -> input unchanged and vice versa.
(iii) history driver: answer(q2 after q1) == answer(q2) for all ordered pairs of a pool of read-only queries.
"""
import io as _io
import os

import numpy as np

from rv import core, zoo, monitors, fcsgen
from rv.fingerprint import fp, diff

ANCHORS = ['FCSData.__array_finalize__', 'FCSData.range', 'FCSData.hist_bins', 'transform', 'to_rfi', 'to_mef', 'selection_std']      # functions the property is anchored in: never entered => inconclusive
LEVEL = 'exploration'
LEVEL_TEXT = "Argument-fingerprint purity monitor on every public callable (enumerated; evidence lists uncovered = none) driven by ~340 call templates, the calibration and the Excel workflow with plots and the repository's tests; aliasing driver (mutate one side) and all ordered pairs of read-only queries. Exploration."
TECHNIQUE = 'argument-fingerprint purity monitor on every public callable + aliasing (mutate one side) and query-order history checkers'
RULE = ('every public function/method (enumerated) x call templates {array, integer sample, float sample} x scales '
        '{linear, log, logicle} x scalar/list arguments, list-valued bins, dict parameters, population lists; all ordered '
        'pairs of a pool of read-only queries on a fresh object; non-trivial = call passes a mutable container or a '
        'sample; distinct = (template, sample kind) / (q1, q2, sample kind)'
        ' Also: per-violin bin-edge lists with a log position axis and a zero position, a base sample that went through the generic transformation (aliasing).')
ASSUMPTIONS = ['fingerprints read public accessors only', 'functions without a call template are listed as uncovered (not a violation)']
MIN_CHECKS = {'quick': 8000, 'thorough': 150000}
REQUIRED_COUNTERS = ['chk:purity', 'chk:alias', 'chk:history']
TIMEOUT_S = {'quick': 1200, 'thorough': 7200}


def summarize(m, tier):
    """cli hook: which enumerated public callables were never executed under the monitor."""
    targets = sorted(k[8:] for k in m['notes'] if k.startswith('target: '))
    called = {k[14:]: n for k, n in m['notes'].items() if k.startswith('purity calls: ')}
    unc = [q for q in targets if not called.get(q)]
    for k in list(m['notes']):
        if k.startswith('target: '):
            del m['notes'][k]
    problems = [] if len(targets) >= 30 else ['only %d public callables enumerated' % len(targets)]
    return {'public_callables_monitored': len(targets), 'uncovered': unc, 'calls_per_callable': called}, problems


def samples(F, rng, path, n=120, big=False):
    si = zoo.int_spec(rng, n=n, d=5, res=1024, with_time=True)
    for row in si['events']:
        for j in range(4):
            row[j] = int(np.clip(rng.normal(400, 120), 0, 1023))
    s_int = zoo.write_and_load(F, si, path)
    s_flt = zoo.write_and_load(F, zoo.float_spec(rng, n=n, d=4), path)
    arr = np.abs(rng.normal(300, 100, size=(n, 4))) + 1
    out = {'int': s_int, 'float': s_flt, 'array': arr, 'rfi': F.transform.to_rfi(s_int)}
    # double-precision containers holding zeros and negative values (what "no conversion needed" shortcuts hand through)
    s_f64 = zoo.write_and_load(F, zoo.float_spec(rng, n=n, d=4, dt='D'), path)
    a0 = np.array(rng.normal(300, 200, size=(n, 4)))
    a0[::7, 0] = 0.0
    a0[3::11, 1] = 0.0
    out['f64'] = s_f64
    out['array0'] = a0
    if big:
        sb = zoo.int_spec(rng, n=70001, d=4, res=1024)
        out['big'] = F.transform.to_rfi(zoo.write_and_load(F, sb, path))
        out['bigarray'] = np.abs(rng.normal(300, 100, size=(70001, 3))) + 1
    return out


def templates(F, S, rng):
    """name -> list of (label, thunk). Thunks build their own fresh mutable containers and keep
    references alive so that the monitor sees caller-owned objects."""
    import matplotlib.pyplot as plt
    T = []

    def add(q, label, fn):
        T.append((q, label, fn))
    for kind in ('int', 'float', 'array', 'rfi', 'f64', 'array0'):
        d = S[kind]
        is_s = hasattr(d, 'channels')
        c0, c1 = (d.channels[0], d.channels[1]) if is_s else (0, 1)
        # transform
        if is_s:
            add('transform.to_rfi', kind + ':list', lambda d=d, c0=c0, c1=c1: F.transform.to_rfi(d, [c0, c1], [(4, 1), (0, 0)], [None, 2.0], [1024, 1024]))
            add('transform.to_rfi', kind + ':all', lambda d=d: F.transform.to_rfi(d))
        else:
            add('transform.to_rfi', kind + ':list', lambda d=d: F.transform.to_rfi(d, [0, 1], [(4, 1), (0, 0)], [None, 2.0], [1024, 1024]))
        crv = [zoo.make_curve(1.0, 2.0), zoo.make_curve(1.1, 3.0)]
        add('transform.to_mef', kind, lambda d=d, c0=c0, c1=c1, crv=crv: F.transform.to_mef(d, [c1], crv, [c1, c0]))
        add('transform.transform', kind, lambda d=d, c0=c0: F.transform.transform(d, [c0], lambda x: np.asarray(x) * 2.0))
        # gates
        add('gate.start_end', kind, lambda d=d: F.gate.start_end(d, 5, 5, True))
        add('gate.high_low', kind + ':default', lambda d=d: F.gate.high_low(d))
        add('gate.high_low', kind + ':lists', lambda d=d, c0=c0, c1=c1: F.gate.high_low(d, [c1, c0], [900.0, 800.0], [1.0, 2.0], True))
        add('gate.ellipse', kind, lambda d=d, c0=c0, c1=c1: F.gate.ellipse(d, [c0, c1], [2.3, 2.4], 0.5, 0.4, 0.3, True, True))
        for scale in (('linear', 'linear'), ('logicle', 'log'), ('log', 'logicle')):
            if kind == 'float' and 'log' in scale:
                continue
            add('gate.density2d', kind + ':bins-list-int:' + '/'.join(scale),
                lambda d=d, c0=c0, c1=c1, scale=scale: F.gate.density2d(d, [c0, c1], [16, 20], 0.5, scale[0], scale[1], 2.0, None, True))
            add('gate.density2d', kind + ':bins-int:' + '/'.join(scale),
                lambda d=d, c0=c0, c1=c1, scale=scale: F.gate.density2d(d, [c1, c0], 16, 0.5, scale[0], scale[1], 2.0))
        add('gate.density2d', kind + ':bins-arrays',
            lambda d=d, c0=c0, c1=c1: F.gate.density2d(d, [c0, c1], [np.linspace(0, 1100, 12), np.linspace(0, 1100, 9)], 0.7, 'linear', 'linear', 1.0))
        # stats
        for st in monitors.STATS:
            add('stats.' + st, kind + ':list', lambda d=d, st=st, c0=c0, c1=c1: getattr(F.stats, st)(d, [c1, c0]))
            add('stats.' + st, kind + ':none', lambda d=d, st=st: getattr(F.stats, st)(d))
        # mef helpers
        for scale in ('linear', 'log', 'logicle'):
            add('mef.clustering_gmm', kind + ':' + scale, lambda d=d, scale=scale: F.mef.clustering_gmm(d[:, [0, 1]] if not hasattr(d, 'channels') else d[:, [0, 1]], 2, scale=scale))
            if is_s:
                add('mef.selection_std', kind + ':' + scale,
                    lambda d=d, scale=scale: F.mef.selection_std([d[:40, 0], d[40:80, 0], d[80:, 0]], scale=scale))
            add('mef.selection_std', kind + ':explicit:' + scale,
                lambda d=d, scale=scale: F.mef.selection_std([d[:40, 0], d[40:80, 0], d[80:, 0]], low=2.0, high=900.0, scale=scale))
        # plots
        if is_s:
            for xs in ('linear', 'log', 'logicle'):
                add('plot.hist1d', kind + ':' + xs, lambda d=d, xs=xs, c0=c0: F.plot.hist1d([d, d[:50]], c0, xs, bins=32))
                add('plot.hist1d', kind + ':single:' + xs, lambda d=d, xs=xs: F.plot.hist1d(d, 1, xs, bins=None if xs != 'log' else 16))
                add('plot.density2d', kind + ':' + xs, lambda d=d, xs=xs, c0=c0, c1=c1: F.plot.density2d(d, [c0, c1], [16, 16], 'mesh', xscale=xs, yscale=xs, sigma=1.0))
                add('plot.density2d', kind + ':scatter:' + xs, lambda d=d, xs=xs: F.plot.density2d(d, [0, 1], 16, 'scatter', xscale=xs, yscale='logicle', sigma=1.0))
                add('plot.scatter2d', kind + ':' + xs, lambda d=d, xs=xs, c0=c0, c1=c1: F.plot.scatter2d([d, d[:30]], [c0, c1], xs, xs))
                add('plot.scatter3d', kind + ':' + xs, lambda d=d, xs=xs: F.plot.scatter3d([d], [0, 1, 2], xs, xs, xs))
                add('plot.scatter3d_and_projections', kind + ':' + xs, lambda d=d, xs=xs: F.plot.scatter3d_and_projections([d], [0, 1, 2], xs, xs, xs))
                add('plot.violin', kind + ':' + xs, lambda d=d, xs=xs: F.plot.violin([d, d[:60]], 1, yscale=xs))
            # caller-owned mutable keyword arguments (limits, colours, labels, kwargs dictionaries, explicit bin edges)
            add('plot.hist1d', kind + ':mutable-kwargs',
                lambda d=d, c0=c0: F.plot.hist1d([d, d[:50]], c0, 'logicle', bins=[list(np.linspace(0, 1000, 17)), list(np.linspace(0, 1000, 9))]
                                                if False else 32, xlim=[1.0, 2000.0], ylim=[0, 50], legend=True, legend_labels=['a', 'b'],
                                                facecolor=['r', 'b'], edgecolor=['k', 'k']))
            add('plot.hist1d', kind + ':bins-edges-list',
                lambda d=d, c0=c0: F.plot.hist1d(d, c0, 'linear', bins=list(np.linspace(0, 1100, 12)), xlim=[0.0, 1100.0]))
            add('plot.scatter2d', kind + ':mutable-kwargs',
                lambda d=d, c0=c0, c1=c1: F.plot.scatter2d([d, d[:30]], [c1, c0], 'logicle', 'linear', xlim=[1.0, 5000.0], ylim=[0.0, 1100.0], color=['r', 'b']))
            add('plot.density2d', kind + ':mutable-kwargs',
                lambda d=d, c0=c0, c1=c1: F.plot.density2d(d, [c1, c0], [12, 14], 'mesh', xscale='linear', yscale='logicle', sigma=1.0,
                                                           xlim=[0.0, 1100.0], ylim=[1.0, 5000.0]))
            add('plot.violin', kind + ':mutable-kwargs',
                lambda d=d: F.plot.violin([d, d[:60], d[20:]], 1, positions=[1.0, 2.0, 3.0], yscale='logicle', ylim=[-100.0, 3000.0],
                                          violin_kwargs={'facecolor': 'gray'}, draw_summary_stat_kwargs={'color': 'k'}, bin_edges=None))
            add('plot.violin', kind + ':log-position-zero:per-violin-bin-edges',
                lambda d=d: F.plot.violin([d, d[:60], d[20:]], 1, positions=[0.0, 10.0, 100.0], xscale='log', yscale='linear',
                                          bin_edges=[np.linspace(0, 1100, 20), np.linspace(0, 1100, 20), np.linspace(0, 1100, 20)]))
            add('plot.violin_dose_response', kind + ':log-position-zero:per-violin-bin-edges',
                lambda d=d: F.plot.violin_dose_response([d, d[:60], d[20:]], 1, [10.0, 0.0, 100.0], xscale='log', yscale='linear',
                                                        bin_edges=[np.linspace(0, 1100, 20), np.linspace(0, 1100, 20),
                                                                   np.linspace(0, 1100, 20)]))
            add('plot.violin', kind + ':bin-edges-list',
                lambda d=d: F.plot.violin([d, d[:60]], 1, positions=[1.0, 2.0], yscale='linear', bin_edges=list(np.linspace(0, 1100, 20))))
            add('plot.density_and_hist', kind,
                lambda d=d, c0=c0, c1=c1: F.plot.density_and_hist(d, d[:60], None, [c0, c1], {'mode': 'scatter', 'sigma': 2.0, 'bins': [16, 16]},
                                                                    [d.channels[2], d.channels[3]], [{'xscale': 'linear', 'bins': 32}, {'xscale': 'logicle', 'bins': 32}]))
            add('plot.violin_dose_response', kind,
                lambda d=d: F.plot.violin_dose_response([d, d[:60], d[30:]], 1, [1.0, 10.0, 100.0], xscale='log', yscale='logicle'))
            # FCSData methods
            add('io.FCSData.hist_bins', kind + ':log', lambda d=d: d.hist_bins([0, 1], [16, None], ['log', 'linear']))
            add('io.FCSData.hist_bins', kind + ':logicle', lambda d=d, c0=c0: d.hist_bins(c0, 32, 'logicle', T=262144.0))
            add('io.FCSData.hist_bins', kind + ':all-log', lambda d=d: d.hist_bins(None, 8, 'log'))
            for acc in ('range', 'resolution', 'amplification_type', 'amplifier_gain', 'detector_voltage', 'channel_labels'):
                add('io.FCSData.' + acc, kind + ':list', lambda d=d, acc=acc, c0=c0: getattr(d, acc)([c0, 1]))
                add('io.FCSData.' + acc, kind + ':none', lambda d=d, acc=acc: getattr(d, acc)())
    rfi = np.array([10., 30., 100., 300., 1000., 3000.])
    mef = np.array([500., 1500., 5000., 15000., 50000., 150000.])
    add('mef.fit_beads_autofluorescence', 'arrays', lambda: F.mef.fit_beads_autofluorescence(rfi, mef))
    add('mef.fit_beads_autofluorescence', 'lists', lambda: F.mef.fit_beads_autofluorescence(list(rfi), list(mef)))
    fit = F.mef.fit_beads_autofluorescence(rfi, mef)
    add('mef.plot_standard_curve', 'log', lambda: F.mef.plot_standard_curve(rfi, mef, fit[1], fit[0], 'log', 'log', [1.0, 1e4]))
    # io segment readers on an in-memory file
    raw, lay = fcsgen.build(zoo.int_spec(rng, n=5, d=2))
    add('io.read_fcs_header_segment', 'bytesio', lambda: F.io.read_fcs_header_segment(_io.BytesIO(raw)))
    add('io.read_fcs_text_segment', 'bytesio', lambda: F.io.read_fcs_text_segment(_io.BytesIO(raw), lay['text_begin'], lay['text_end']))
    widths, ranges = [16, 16], [1024.0, 1024.0]
    tmpf = os.path.join(os.path.dirname(S['int'].infile), 'c13_seg.bin')
    with open(tmpf, 'wb') as fh:
        fh.write(b'\x01\x02' * 4)

    def _read_seg():
        with open(tmpf, 'rb') as fh:
            return F.io.read_fcs_data_segment(fh, 0, 7, 'I', 2, widths, True, ranges)
    add('io.read_fcs_data_segment', 'lists', _read_seg)
    # single channels by name and by position (a basic-indexing VIEW of the caller's events goes into the statistic) and a
    # large sample (in-place / chunked fast paths engage only above tens of thousands of events)
    for kind in ('int', 'float', 'rfi', 'big'):
        d = S[kind]
        for st in monitors.STATS:
            add('stats.' + st, kind + ':scalar-name', lambda d=d, st=st: getattr(F.stats, st)(d, d.channels[1]))
            add('stats.' + st, kind + ':scalar-position', lambda d=d, st=st: getattr(F.stats, st)(d, 2))
            if kind == 'big':
                add('stats.' + st, kind + ':list', lambda d=d, st=st: getattr(F.stats, st)(d, [d.channels[1], 0]))
                add('stats.' + st, kind + ':array-scalar', lambda d=d, st=st: getattr(F.stats, st)(S['bigarray'], 1))
    add('gate.high_low', 'big', lambda: F.gate.high_low(S['big'], [0, 1], full_output=True))
    add('gate.ellipse', 'big', lambda: F.gate.ellipse(S['big'], [0, 1], [1.5, 1.5], 1.0, 0.8, 0.5, True, True))
    add('gate.density2d', 'big', lambda: F.gate.density2d(S['big'], [0, 1], [40, 64], 0.5, 'logicle', 'logicle', 2.0, None, True))
    add('transform.to_mef', 'big', lambda: F.transform.to_mef(S['big'], [2], [zoo.make_curve(1.1, 2.0)], [2]))
    return T


def queries(F):
    Q = [('channels', lambda s: s.channels), ('range()', lambda s: s.range()), ('range(0)', lambda s: s.range(0)),
         ('resolution', lambda s: s.resolution()), ('amp_type', lambda s: s.amplification_type()),
         ('gain', lambda s: s.amplifier_gain([0, 1])), ('voltage', lambda s: s.detector_voltage()),
         ('labels', lambda s: s.channel_labels()), ('text', lambda s: dict(s.text)), ('acq_time', lambda s: s.acquisition_time),
         ('time_step', lambda s: s.time_step), ('start', lambda s: s.acquisition_start_time)]
    for sc in ('linear', 'log', 'logicle'):
        Q.append(('hist_bins:' + sc, lambda s, sc=sc: s.hist_bins([0, 1], 16, sc)))
        Q.append(('hist_bins1:' + sc, lambda s, sc=sc: s.hist_bins(0, None if sc == 'linear' else 32, sc)))
        Q.append(('density2d:' + sc, lambda s, sc=sc: np.asarray(F.gate.density2d(s, [0, 1], 8, 0.6, sc, sc, 1.0))))
        Q.append(('plot.hist1d:' + sc, lambda s, sc=sc: (F.plot.hist1d(s, 0, sc, bins=16), None)[1]))
        Q.append(('plot.scatter2d:' + sc, lambda s, sc=sc: (F.plot.scatter2d(s, [0, 1], sc, sc), None)[1]))
        Q.append(('logicle-params:' + sc, lambda s, sc=sc: (lambda t: (t.T, t.M, t.W))(F.plot._LogicleTransform(data=s, channel=0))))
    # the same query with other options (an answer remembered from an earlier call must not come back under other options)
    Q.append(('hist_bins1:logicle:T', lambda s: s.hist_bins(0, 32, 'logicle', T=5000.0)))
    Q.append(('hist_bins1:logicle:TMW', lambda s: s.hist_bins(0, 32, 'logicle', T=1e5, M=5.0, W=1.0)))
    Q.append(('hist_bins1:logicle:W0', lambda s: s.hist_bins(0, 32, 'logicle', W=0.0)))
    Q.append(('hist_bins1:logicle:n64', lambda s: s.hist_bins(0, 64, 'logicle')))
    Q.append(('density2d:logicle:bins12', lambda s: np.asarray(F.gate.density2d(s, [0, 1], 12, 0.6, 'logicle', 'logicle', 1.0))))
    Q.append(('density2d:logicle:swapped', lambda s: np.asarray(F.gate.density2d(s, [1, 0], 8, 0.6, 'logicle', 'linear', 2.0))))
    for st in ('mean', 'gmean', 'median', 'std', 'iqr', 'rcv', 'mode'):
        Q.append(('stats.' + st, lambda s, st=st: getattr(F.stats, st)(s, [0, 1])))
    Q += [('high_low', lambda s: np.asarray(F.gate.high_low(s))), ('high_low-mask', lambda s: F.gate.high_low(s, [0], full_output=True).mask),
          ('start_end', lambda s: np.asarray(F.gate.start_end(s, 3, 3))), ('to_rfi', lambda s: F.transform.to_rfi(s)),
          ('to_rfi-range', lambda s: F.transform.to_rfi(s, [0]).range()), ('slice', lambda s: s[:, [1, 0]]),
          ('slice-range', lambda s: s[:, 0].range()), ('copy', lambda s: s.copy()), ('sum', lambda s: s.sum(axis=0)),
          ('selection_std', lambda s: F.mef.selection_std([s[:20, 0], s[20:, 0]], scale='log')),
          ('selection_std-logicle', lambda s: F.mef.selection_std([s[:20, 0], s[20:, 0]])),
          ('pickle', lambda s: __import__('pickle').loads(__import__('pickle').dumps(s))),
          ('logicle-inverse', lambda s: np.asarray(F.plot._LogicleTransform(data=s, channel=0).inverted().transform_non_affine(
              np.asarray(s[:, 0], dtype=float), mask_out_of_range=False))),
          ('clustering_gmm:logicle', lambda s: np.asarray(F.mef.clustering_gmm(s[:, [0, 1]], 2, scale='logicle'))),
          ('selection_std-spread', lambda s: F.mef.selection_std([s[np.argsort(np.asarray(s[:, 0]))[i::4], 0] for i in range(4)]))]
    return Q


def random_plot_call(F, S, rng):
    """A random, valid combination of options of one plotting function -> (qualified name, label, thunk).
    The thunk owns fresh mutable containers (lists, dicts) that stay caller-owned."""
    kind = str(rng.choice(['int', 'float', 'rfi']))
    d = S[kind]
    ch = int(rng.integers(0, 3))
    name = d.channels[ch]
    chan = name if rng.random() < 0.5 else ch
    parts = [d[:40], d[40:80], d[80:]]
    which = str(rng.choice(['violin', 'violin', 'violin_dose_response', 'hist1d', 'scatter2d', 'density2d', 'density_and_hist']))
    dscale = str(rng.choice(['logicle', 'linear', 'log']))
    pscale = str(rng.choice(['linear', 'log']))
    if which in ('violin', 'violin_dose_response'):
        form = int(rng.integers(4))
        if form == 0:
            data, c = [p for p in parts], chan
        elif form == 1:
            data, c = [np.asarray(p[:, ch], dtype=float) for p in parts], None          # list of plain 1-D arrays
        elif form == 2:
            data, c = [p[:, ch] for p in parts], None                                    # list of 1-D samples
        else:
            data, c = tuple(p for p in parts), chan
        pos = [0.0, 10.0, 100.0] if rng.random() < 0.5 else [1.0, 10.0, 100.0]
        if rng.random() < 0.3:
            pos = [10.0, 0.0, 100.0]
        if rng.random() < 0.3:
            pos = np.array(pos)
        kw = {}
        if rng.random() < 0.4:
            kw['violin_kwargs'] = [{'facecolor': 'r'}, {'facecolor': 'g'}, {'facecolor': 'b'}] if rng.random() < 0.5 else {'facecolor': 'c'}
        if rng.random() < 0.3:
            kw['upper_trim_fraction'] = [0.01, 0.02, 0.0]
            kw['lower_trim_fraction'] = [0.0, 0.02, 0.01]
        if rng.random() < 0.3:
            kw['draw_summary_stat_kwargs'] = {'color': 'k', 'linewidth': 2}
            kw['draw_log_zero_divider_kwargs'] = {'color': 'r'}
        if rng.random() < 0.5:
            # caller-owned bin specification: one edge array, or a list / tuple of per-violin edge arrays
            e = np.logspace(0, 5.5, 21) if dscale == 'log' else np.linspace(-300.0, 1100.0 if kind == 'int' else 262144.0, 21)
            be = int(rng.integers(4))
            kw['bin_edges'] = [e, [e.copy(), e.copy() * 1.0, e.copy()], (e.copy(), e.copy(), e.copy()), list(e)][be]
            if which == 'violin_dose_response' and rng.random() < 0.5:
                kw['min_bin_edges'] = e.copy()
                kw['max_bin_edges'] = list(e)
        if which == 'violin':
            vert = bool(rng.random() < 0.6)
            if vert:
                kw.update(xscale=pscale, yscale=dscale)
            else:
                kw.update(xscale=dscale, yscale=pscale)
            label = 'form%d vert=%s pos=%s scales=%s/%s %s' % (form, vert, list(np.asarray(pos)), pscale, dscale, sorted(kw))
            return 'plot.violin', label, (lambda: F.plot.violin(data, c, positions=pos, vert=vert, num_bins=20, **kw))
        mind = parts[0] if form in (0, 3) else (np.asarray(parts[0][:, ch], dtype=float) if form == 1 else parts[0][:, ch])
        maxd = parts[2] if form in (0, 3) else (np.asarray(parts[2][:, ch], dtype=float) if form == 1 else parts[2][:, ch])
        use_mm = rng.random() < 0.5
        label = 'form%d pos=%s xscale=%s yscale=%s minmax=%s %s' % (form, list(np.asarray(pos)), pscale, dscale, use_mm, sorted(kw))
        return 'plot.violin_dose_response', label, (lambda: F.plot.violin_dose_response(
            data, c, positions=pos, min_data=mind if use_mm else None, max_data=maxd if use_mm else None,
            xscale=pscale, yscale=dscale, num_bins=20, **kw))
    if which == 'hist1d':
        dl = [p for p in parts] if rng.random() < 0.6 else d
        bins = int(rng.choice([16, 64])) if rng.random() < 0.6 else (None if max(d.resolution()) <= 4096 and rng.random() < 0.3 else list(np.linspace(1, 1000, 13)))
        kw = {}
        if isinstance(dl, list) and rng.random() < 0.5:
            kw.update(facecolor=['r', 'g', 'b'], legend=True, legend_labels=['a', 'b', 'c'])
        if rng.random() < 0.4:
            kw.update(xlim=[1.0, 5000.0])
        if rng.random() < 0.3:
            kw.update(normed_area=True)
        label = 'list=%s scale=%s bins=%s %s' % (isinstance(dl, list), dscale, type(bins).__name__, sorted(kw))
        return 'plot.hist1d', label, (lambda: F.plot.hist1d(dl, chan, dscale, bins=bins, **kw))
    c2 = [chan, d.channels[(ch + 1) % 3] if rng.random() < 0.5 else (ch + 1) % 3]
    ys = str(rng.choice(['logicle', 'linear', 'log']))
    if which == 'scatter2d':
        dl = [p for p in parts] if rng.random() < 0.6 else d
        kw = dict(color=['r', 'g', 'b']) if isinstance(dl, list) and rng.random() < 0.5 else {}
        return 'plot.scatter2d', 'list=%s %s/%s' % (isinstance(dl, list), dscale, ys), (lambda: F.plot.scatter2d(dl, c2, dscale, ys, **kw))
    if which == 'density2d':
        bins = [int(rng.choice([8, 16])), int(rng.choice([8, 16]))] if rng.random() < 0.5 else int(rng.choice([8, 16]))
        mode = str(rng.choice(['mesh', 'scatter']))
        return 'plot.density2d', '%s %s/%s bins=%s' % (mode, dscale, ys, type(bins).__name__), \
            (lambda: F.plot.density2d(d, c2, bins, mode, xscale=dscale, yscale=ys, sigma=1.0, smooth=bool(rng.random() < 0.7)))
    dp = {'mode': str(rng.choice(['mesh', 'scatter'])), 'sigma': 1.0, 'bins': [12, 12], 'xscale': dscale, 'yscale': ys}
    hc = [d.channels[2], d.channels[(ch + 1) % 3]]
    hp = [{'xscale': dscale, 'bins': 16}, {'xscale': ys, 'bins': 16}] if rng.random() < 0.6 else {'xscale': dscale, 'bins': 16}
    gated = d[:50] if rng.random() < 0.7 else None
    return 'plot.density_and_hist', 'gated=%s hist_params=%s' % (gated is not None, type(hp).__name__), \
        (lambda: F.plot.density_and_hist(d, gated, None, c2, dp, hc, hp))


def bead_sample(F, rng, path, rmax=262144):
    """small well-separated bead sample (3 populations) for the calibration template."""
    K, n = 4, 120
    lad = np.array([60., 300., 1500., 7000.])
    cols = []
    for j in range(3):
        c = np.concatenate([rng.normal(m, 0.03 * m, size=n) for m in lad * (1 + 0.3 * j)])
        cols.append(c)
    order = rng.permutation(K * n)
    ev = [[float(cols[j][i]) for j in range(3)] for i in order]
    spec = dict(version='FCS3.0', datatype='F', widths=[32] * 3, events=ev, ranges=[262144] * 3,
                names=['FL1', 'FL2', 'FL3'], pne=['0,0'] * 3)
    spec['ranges'] = [rmax] * 3
    return zoo.write_and_load(F, spec, path)


def run(ctx):
    F = core.import_flowcal()
    import matplotlib.pyplot as plt
    mon = monitors.Monitors(ctx, F)
    mon.attach_purity()
    path = os.path.join(ctx.tmpdir, 'c13.fcs')
    reps = 1 if ctx.tier == 'quick' else 10
    # ---- (i) templates -------------------------------------------------------------
    covered = set()
    for r in range(reps):
        cid = ('tpl', r)
        if ctx.only_case is not None and ctx.only_case != cid:
            continue
        rng = ctx.rng(cid)
        S = samples(F, rng, path, big=True)
        T = templates(F, S, rng)
        for i, (q, label, fn) in enumerate(T):
            # every shard builds the same samples and runs its own slice of the template list
            if ctx.only_case is None and (i % ctx.nshards) != ctx.shard:
                continue
            mon.cid = cid
            mon.template = '%s [%s]' % (q, label)
            with np.errstate(all='ignore'):
                o = core.attempt(fn)
            plt.close('all')
            if o.raised:
                ctx.note('template raised: %s [%s]: %s' % (q, label, core.exc_str(o.exc)[:120]))
            covered.add(q)
            ctx.case_done(class_key=('template', q), nontrivial=True, distinct_key=core.digest(cid, q, label),
                          sample={'template': mon.template} if i in (3, 40) else None)
    # random valid option combinations of the plotting functions (their option space is too large for fixed templates)
    nrand = 120 if ctx.tier == 'quick' else 3000
    Srand = None
    for cid, rng in ctx.cases([('rplot', i) for i in range(nrand)]):
        if Srand is None:
            Srand = samples(F, np.random.default_rng([ctx.seed, 13, 99]), path)
        mon.cid = cid
        q, label, fn = random_plot_call(F, Srand, rng)
        mon.template = '%s [random: %s]' % (q, label)
        with np.errstate(all='ignore'):
            o = core.attempt(fn)
        plt.close('all')
        if o.raised:
            ctx.note('random plot call raised: %s: %s' % (q, core.exc_str(o.exc)[:80]))
        ctx.case_done(class_key=('random-plot', q, 'raised' if o.raised else 'ok'), nontrivial=True, distinct_key=core.digest(cid, label),
                      sample={'template': mon.template} if cid[1] < 2 else None)
    # calibration with plots (populations list, dict parameters) under the same monitors
    for cid, rng in ctx.cases([('calib', r) for r in range(4 if ctx.tier == 'quick' else 16)]):
        mon.cid = cid
        # odd cases: the brightest population lies beyond the detector range in two channels, so the selection step sets it
        # aside, and the caller's table of MEF values comes in another container (2-D float array, list of arrays, tuples)
        b = bead_sample(F, rng, path, rmax=262144 if cid[1] % 2 == 0 else 8192)
        mefv = [[500., 2500., 12500., 60000.], [700., 3500., 17000., np.nan if cid[1] % 2 == 0 else 80000.]]
        if cid[1] % 2 == 1:
            mefv = [np.array(mefv, dtype=float), [np.array(r_) for r_ in mefv], tuple(tuple(r_) for r_ in mefv),
                    np.array(mefv, dtype=float)][(cid[1] // 2) % 4]
        cp, sp, fp_, selp = {'tol': 1e-6}, {}, {}, {'n_std_low': 2.0}
        mon.template = 'mef.get_transform_fxn [plot=True]'
        np.random.seed(int(rng.integers(1 << 30)))
        with np.errstate(all='ignore'):
            o = core.attempt(F.mef.get_transform_fxn, b, mefv, ['FL1', 'FL2'], clustering_params=cp,
                             clustering_channels=['FL1', 'FL2'], statistic_params=sp, selection_params=selp,
                             fitting_params=fp_, plot=True, plot_dir=os.path.join(ctx.tmpdir, 'plots'), full_output=True)
        plt.close('all')
        if o.raised:
            ctx.note('template raised: get_transform_fxn: ' + core.exc_str(o.exc)[:160])
        else:
            r = o.value.transform_fxn(b, ['FL1'])
        ctx.case_done(class_key=('template', 'mef.get_transform_fxn'), nontrivial=True, distinct_key=core.digest(cid))
    for q in mon.purity_targets:
        ctx.note('target: ' + q, 0)
        ctx.notes['target: ' + q] += 0
    for q, n in mon.purity_calls.items():
        ctx.note('purity calls: ' + q, n)
    # the Excel workflow with plots as a workload under the same purity monitor (calls into io/transform/gate/stats/mef/plot)
    from rv import excelgen
    import shutil
    import warnings
    for cid, rng in ctx.cases([('excel', r) for r in range(1 if ctx.tier == 'quick' else 10)]):
        mon.cid = cid
        mon.template = 'excel_ui.run [plot=True]'
        old_tag, mon.tag = mon.tag, 'excel-pipeline'
        base = os.path.join(ctx.tmpdir, 'xl%d' % cid[1])
        itab, btab, stab, info = excelgen.experiment(rng, base, n_inst=1, n_beads=1, n_samples=2, nfl=3,
                                                     units_pool=['Channel', 'RFI', 'MEF', 'a.u.'])
        for bid in btab.index:
            fl = [c.strip() for c in itab.at[btab.at[bid, 'Instrument ID'], 'Fluorescence Channels'].split(',')]
            btab.at[bid, 'Clustering Channels'] = ', '.join(fl[:1 + cid[1] % 3])
        inp = os.path.join(base, 'in.xlsx')
        excelgen.write_input_workbook(inp, itab, btab, stab)
        np.random.seed(7)
        with warnings.catch_warnings():
            warnings.simplefilter('ignore')
            o = core.attempt(F.excel_ui.run, input_path=inp, output_path=None, verbose=False, plot=True, hist_sheet=True)
        plt.close('all')
        if o.raised:
            ctx.note('template raised: excel_ui.run: ' + core.exc_str(o.exc)[:160])
        mon.tag = old_tag
        shutil.rmtree(base, ignore_errors=True)
        ctx.case_done(class_key=('template', 'excel_ui.run'), nontrivial=True, distinct_key=core.digest(cid))
    # ---- (ii) aliasing ----------------------------------------------------------------------
    for cid, rng in ctx.cases([('alias', r) for r in range(12 if ctx.tier == 'quick' else 250)]):
        mon.cid = cid
        S = samples(F, rng, path, n=40)
        with np.errstate(all='ignore'):
            # a sample that already went through the generic transformation with a NumPy function (its limits went through
            # the same function and may be held in another container type than after loading)
            S['xform'] = F.transform.transform(S['rfi'], [0, 1, 2], [np.sqrt, np.log1p, np.cbrt][int(rng.integers(3))])
        for kind in ('int', 'float', 'rfi', 'xform'):
            d = S[kind]
            crv = [zoo.make_curve(1.0, 2.0)]
            makers = [
                ('to_rfi', lambda x: F.transform.to_rfi(x), False), ('to_mef', lambda x: F.transform.to_mef(x, [0], crv, [0]), False),
                ('transform', lambda x: F.transform.transform(x, [0, 1], np.sqrt), False),
                ('start_end', lambda x: F.gate.start_end(x, 2, 2), False), ('high_low', lambda x: F.gate.high_low(x), False),
                ('density2d', lambda x: F.gate.density2d(x, [0, 1], 8, 0.9, 'linear', 'linear', 1.0), False),
                ('ellipse', lambda x: F.gate.ellipse(x, [0, 1], [400, 400], 300, 300), False),
                ('copy', lambda x: x.copy(), False), ('astype', lambda x: x.astype(float), False),
                ('slice-rows', lambda x: x[2:20], True), ('slice-cols', lambda x: x[:, [0, 2]], False),
                ('slice-col-range', lambda x: x[:, 1:3], True), ('view', lambda x: x.view(), True),
                ('mask', lambda x: x[np.arange(len(x)) % 2 == 0], False), ('ufunc', lambda x: x + 1, False)]
            for name, mk, may_share_buffer in makers:
                for direction in ('result-mutated', 'input-mutated'):
                    src = d.copy()
                    with np.errstate(all='ignore'):
                        o = core.attempt(mk, src)
                    if o.raised or not hasattr(o.value, 'channels') or o.value.size == 0:
                        ctx.note('aliasing maker not applicable: %s/%s' % (name, kind))
                        continue
                    res = o.value
                    a, b = (res, src) if direction == 'result-mutated' else (src, res)
                    ctx.counters['chk:alias'] += 1
                    before = fp(b, ident=False)
                    dd = dict(maker=name, kind=kind, direction=direction)
                    if not may_share_buffer:
                        if a.ndim == 2:
                            a[0, 0] = a[0, 0] + 1
                        ctx.check(fp(b, ident=False) == before, 'alias:events-shared', cid, **dd)
                    r = a.range(0)
                    r[0] = -777.25
                    ctx.check(fp(b, ident=False) == before, 'alias:range-shared', cid, **dd)
                    a.range()[-1][1] = 1e9
                    ctx.check(fp(b, ident=False) == before, 'alias:range-shared', cid, **dd)
                    a.text['RV-ALIAS'] = '1'
                    a.analysis['RV-ALIAS'] = '1'
                    ctx.check(fp(b, ident=False) == before, 'alias:keywords-shared', cid, **dd)
                    ctx.case_done(class_key=('alias', name, kind, direction), nontrivial=True, distinct_key=core.digest(cid, name, kind, direction))
    # two loads of one path are independent objects (no cache may hand out shared buffers or metadata)
    for cid, rng in ctx.cases([('loads', r) for r in range(6 if ctx.tier == 'quick' else 120)]):
        mon.cid = cid
        spec = zoo.int_spec(rng, n=12, d=3) if rng.random() < 0.5 else zoo.float_spec(rng, n=12, d=3)
        a = zoo.write_and_load(F, spec, path)
        ref = fp(a, ident=False)
        for loader in ('FCSData', 'FCSFile'):
            a = F.io.FCSData(path)
            if loader == 'FCSData':
                b = F.io.FCSData(path)
            else:
                b = F.io.FCSFile(path)
            a[0, 0] = a[0, 0] + 1
            a.range(0)[1] = -3.5
            a.text['RV-ALIAS'] = '1'
            ctx.counters['chk:alias'] += 1
            if loader == 'FCSData':
                ctx.check(fp(b, ident=False) == ref, 'alias:two-loads-share-state', cid, loader=loader, first_diff=diff(ref, fp(b, ident=False)))
                c = F.io.FCSData(path)
                ctx.check(fp(c, ident=False) == ref, 'alias:later-load-sees-modified-earlier-load', cid, first_diff=diff(ref, fp(c, ident=False)))
            else:
                ctx.check('RV-ALIAS' not in b.text and np.asarray(b.data)[0, 0] != np.asarray(a)[0, 0],
                          'alias:two-loads-share-state', cid, loader=loader)
        ctx.case_done(class_key=('alias', 'two-loads', spec['datatype']), nontrivial=True, distinct_key=core.digest(cid))
    # ---- cross-object history against a FRESH PROCESS: what was loaded and queried earlier (other files, other ranges,
    # other negative events) must not change the answers for a later sample (e.g. caches with incomplete keys)
    import json as _json
    import subprocess
    import sys as _sys
    from rv import freshq
    qnames = [n for n, _ in queries(F) if n.split(':')[0] in ('hist_bins', 'hist_bins1', 'density2d', 'logicle-params', 'selection_std',
                                                               'selection_std-logicle', 'high_low', 'range()', 'stats.median', 'to_rfi-range', 'logicle-inverse',
                                                               'clustering_gmm', 'selection_std-spread', 'channels', 'resolution',
                                                               'amp_type', 'voltage', 'labels', 'text', 'acq_time', 'time_step', 'start')]
    for cid, rng in ctx.cases([('fresh', r) for r in range(2 if ctx.tier == 'quick' else 24)]):
        mon.cid = cid
        # A and B share resolution / display parameters where a sloppy cache key would, but differ in what matters
        if cid[1] % 2 == 0:
            specA = zoo.float_spec(rng, n=60, d=3, negatives=True)
            specB = zoo.float_spec(rng, n=60, d=3, negatives=True)
            specB['events'] = [[v * 3.0 if v < 0 else v for v in row] for row in specB['events']]      # other most-negative event
        else:
            specA = zoo.int_spec(rng, n=60, d=3, res=1024, all_lin=True)
            specB = zoo.int_spec(rng, n=60, d=3, res=262144, all_lin=True)
        # keyword spellings that a stateful parser could treat differently depending on what it saw before
        specA['extra'] = [(k, v) for k, v in specA.get('extra', []) if k not in ('$DATE', '$BTIM')] + [('$DATE', '98-May-19'), ('$BTIM', '10:00:00.50')]
        specB['extra'] = [(k, v) for k, v in specB.get('extra', []) if k not in ('$DATE', '$BTIM')] + [('$DATE', '19-May-15'), ('$BTIM', '11:02:03:30')]
        pa, pb = os.path.join(ctx.tmpdir, 'fresh_a.fcs'), os.path.join(ctx.tmpdir, 'fresh_b.fcs')
        sa = zoo.write_and_load(F, specA, pa)
        freshq.answers(F, sa, qnames)                       # earlier activity of this process, on another sample
        sb = zoo.write_and_load(F, specB, pb)
        here = freshq.answers(F, sb, qnames)
        job, outp = os.path.join(ctx.tmpdir, 'fresh_job.json'), os.path.join(ctx.tmpdir, 'fresh_out.json')
        with open(job, 'w') as fh:
            _json.dump({'spec': {k: v for k, v in specB.items() if k != 'rng'}, 'path': pb, 'queries': qnames}, fh)
        env = dict(os.environ, PYTHONPATH=core.VERIF, RV_REPO=core.repo_root(), MPLBACKEND='Agg')
        pr = subprocess.run([_sys.executable, '-m', 'rv.freshq', job, outp], env=env, cwd=core.VERIF, capture_output=True, text=True, timeout=600)
        if pr.returncode != 0 or not os.path.exists(outp):
            ctx.note('fresh-process oracle failed (harness): ' + pr.stderr[-200:])
            ctx.counters['oracle_errors'] += 1
            continue
        with open(outp) as fh:
            there = _json.load(fh)
        os.remove(outp)
        for n in qnames:
            ctx.counters['chk:history'] += 1
            ctx.check(here[n] == there[n], 'history:answer-depends-on-earlier-activity-of-the-process', cid, query=n,
                      kind='float' if cid[1] % 2 == 0 else 'int', here=here[n][:160], fresh=there[n][:160])
        ctx.case_done(class_key=('fresh-process', 'float' if cid[1] % 2 == 0 else 'int'), nontrivial=True, distinct_key=core.digest(cid))
    # ---- (iii) history: ordered pairs of read-only queries ------------------------------------
    Q = queries(F)
    pairs = [(i, j) for i in range(len(Q)) for j in range(len(Q))]
    kinds = ('int', 'float')
    if ctx.tier == 'quick':
        # every query as q1 against a rotating third of the pool as q2 (all pairs in thorough)
        pairs = [(i, j) for (i, j) in pairs if (i + j + ctx.seed) % 3 == 0]
    base = {}
    brng = np.random.default_rng([ctx.seed, 13, 77])
    specs = {'int': zoo.int_spec(brng, n=40, d=4, res=1024, with_time=True), 'float': zoo.float_spec(brng, n=40, d=4)}
    for row in specs['int']['events']:
        for j in range(3):
            row[j] = int(np.clip(brng.normal(400, 120), 1, 1022))

    def fresh(kind):
        return zoo.write_and_load(F, specs[kind], path)

    def answer(fn, s):
        np.random.seed(12345)
        with np.errstate(all='ignore'):
            o = core.attempt(fn, s)
        plt.close('all')
        return ('raised', type(o.exc).__name__) if o.raised else fp(o.value, ident=False)
    for kind in kinds:
        alone = {}
        for cid, rng in ctx.cases([('pair', kind, i, j) for (i, j) in pairs]):
            mon.cid = cid
            _, _, i, j = cid
            if j not in alone:
                alone[j] = answer(Q[j][1], fresh(kind))
            s = fresh(kind)
            answer(Q[i][1], s)
            got = answer(Q[j][1], s)
            ctx.counters['chk:history'] += 1
            ctx.check(got == alone[j], 'history:answer-depends-on-earlier-query', cid, first=Q[i][0], then=Q[j][0], kind=kind,
                      first_diff=diff(alone[j], got))
            ctx.case_done(class_key=('pair', kind, Q[i][0].split(':')[0]), nontrivial=i != j,
                          distinct_key=core.digest(kind, i, j), sample={'q1': Q[i][0], 'q2': Q[j][0], 'kind': kind} if (i, j) in ((3, 9), (14, 2)) else None)
    # the repository's own tests as a workload under the same monitors (their assertions are not the oracle)
    from rv import suite_workload
    suite_workload.run_repo_suite(ctx, mon, modules=('test_io.py', 'test_transform.py', 'test_gate.py', 'test_stats.py'))
    mon.detach()
