"""Logical step counter (sys.monitoring): Python function entries and backward jumps inside the code
objects of the repository under verification.  Deterministic on a loaded machine, so termination claims are
judged on steps, never on the clock."""
import sys

TOOL = 3


class StepBudgetExceeded(BaseException):
    """Raised INTO the monitored program when its logical step budget is used up (termination is judged on steps)."""


class StepCounter(object):
    def __init__(self, root, budget=None):
        self.root = root
        self.budget = budget
        self.exceeded = False
        self.steps = 0
        self.entered = {}
        self.active = False

    def __enter__(self):
        mon = sys.monitoring
        try:
            mon.use_tool_id(TOOL, 'rv-steps')
        except ValueError:
            mon.free_tool_id(TOOL)
            mon.use_tool_id(TOOL, 'rv-steps')
        E = mon.events

        def on_start(code, offset):
            if not code.co_filename.startswith(self.root):
                return mon.DISABLE
            self.steps += 1
            if self.budget is not None and self.steps > self.budget and not self.exceeded:
                self.exceeded = True
                raise StepBudgetExceeded('%d steps' % self.steps)
            q = code.co_qualname
            if q not in self.entered:
                self.entered[q] = 0
                try:
                    mon.set_local_events(TOOL, code, E.JUMP)
                except Exception:   # noqa
                    pass
            self.entered[q] += 1

        def on_jump(code, src, dst):
            if dst < src:
                self.steps += 1
                if self.budget is not None and self.steps > self.budget and not self.exceeded:
                    self.exceeded = True
                    raise StepBudgetExceeded('%d steps' % self.steps)
        mon.register_callback(TOOL, E.PY_START, on_start)
        mon.register_callback(TOOL, E.JUMP, on_jump)
        mon.set_events(TOOL, E.PY_START)
        self.active = True
        return self

    def __exit__(self, *a):
        mon = sys.monitoring
        mon.set_events(TOOL, 0)
        mon.register_callback(TOOL, mon.events.PY_START, None)
        mon.register_callback(TOOL, mon.events.JUMP, None)
        try:
            mon.free_tool_id(TOOL)
        except Exception:   # noqa
            pass
        self.active = False
        return False


class ReachCounter(object):
    """Counts entries of the repository's functions (capped per code object, then the event is disabled for it,
    so the overhead is bounded).  Used by every worker: evidence reports which anchored functions were reached."""
    TOOL = 4

    def __init__(self, root, cap=500):
        self.root = root
        self.cap = cap
        self.entered = {}

    def __enter__(self):
        mon = sys.monitoring
        try:
            mon.use_tool_id(self.TOOL, 'rv-reach')
        except ValueError:
            mon.free_tool_id(self.TOOL)
            mon.use_tool_id(self.TOOL, 'rv-reach')

        def on_start(code, offset):
            if not code.co_filename.startswith(self.root):
                return mon.DISABLE
            q = code.co_filename[len(self.root):].lstrip('/').replace('FlowCal/', '').replace('.py', '') + ':' + code.co_qualname
            n = self.entered.get(q, 0) + 1
            self.entered[q] = n
            if n >= self.cap:
                return mon.DISABLE
        mon.register_callback(self.TOOL, mon.events.PY_START, on_start)
        mon.set_events(self.TOOL, mon.events.PY_START)
        return self

    def __exit__(self, *a):
        mon = sys.monitoring
        mon.set_events(self.TOOL, 0)
        mon.register_callback(self.TOOL, mon.events.PY_START, None)
        try:
            mon.free_tool_id(self.TOOL)
        except Exception:   # noqa
            pass
        return False
