"""Fresh-process oracle: answers of named queries on ONE generated sample, computed in a new interpreter in which
nothing else has been loaded or queried before.  Used to expose answers that depend on what the process did earlier
(caches with incomplete keys, rewritten module state):   python -m rv.freshq <in.json> <out.json>"""
import json
import os
import sys


def answers(F, s, names):
    import numpy as np
    import matplotlib.pyplot as plt
    from rv import core
    from rv.fingerprint import fp
    from rv.props import c13
    Q = dict(c13.queries(F))
    out = {}
    for n in names:
        np.random.seed(12345)
        with np.errstate(all='ignore'):
            o = core.attempt(Q[n], s)
        plt.close('all')
        out[n] = json.dumps(('raised', type(o.exc).__name__) if o.raised else fp(o.value, ident=False), default=str)
    return out


def main(argv):
    with open(argv[0]) as f:
        job = json.load(f)
    from rv import core, zoo
    F = core.import_flowcal()
    s = zoo.write_and_load(F, job['spec'], job['path'])
    res = answers(F, s, job['queries'])
    with open(argv[1], 'w') as f:
        json.dump(res, f)


if __name__ == '__main__':
    main(sys.argv[1:])
