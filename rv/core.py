"""
Core of the runtime-verification harness: per-worker context (event recorder,
counters, case/seed derivation), repo import, small helpers.

Nothing in here knows about a particular property.
"""
import hashlib
import json
import os
import sys
import time
import traceback
import collections

import numpy as np

VERIF = os.path.dirname(os.path.dirname(os.path.abspath(__file__)))
GUARD = 'FLOWCAL_VERIF'


def repo_root():
    return os.path.abspath(os.environ.get('RV_REPO', '/repo'))


_flowcal = None


def import_flowcal():
    """Import FlowCal from the tree under verification and assert it."""
    global _flowcal
    if _flowcal is not None:
        return _flowcal
    root = repo_root()
    os.environ.setdefault('MPLBACKEND', 'Agg')
    os.environ[GUARD] = '1'
    if root in sys.path:
        sys.path.remove(root)
    sys.path.insert(0, root)
    import FlowCal
    got = os.path.abspath(FlowCal.__file__)
    if not got.startswith(root + os.sep):
        raise RuntimeError('FlowCal imported from %s, expected under %s'
                           % (got, root))
    _flowcal = FlowCal
    return FlowCal


def prop_no(prop):
    return int(prop[1:])


def jsonable(o, depth=0):
    """Best-effort conversion of a case description to JSON-safe data."""
    if depth > 6:
        return repr(o)[:200]
    if o is None or isinstance(o, (bool, str)):
        return o
    if isinstance(o, (int, np.integer)):
        return int(o)
    if isinstance(o, (float, np.floating)):
        f = float(o)
        if f != f or f in (float('inf'), float('-inf')):
            return repr(f)
        return f
    if isinstance(o, bytes):
        return {'bytes_latin1': o[:400].decode('latin-1'), 'len': len(o)}
    if isinstance(o, np.ndarray):
        if o.size <= 64:
            return {'ndarray': jsonable(o.tolist(), depth + 1),
                    'dtype': str(o.dtype), 'shape': list(o.shape)}
        return {'ndarray_head': jsonable(o.ravel()[:32].tolist(), depth + 1),
                'dtype': str(o.dtype), 'shape': list(o.shape)}
    if isinstance(o, dict):
        return {str(k): jsonable(v, depth + 1) for k, v in list(o.items())[:200]}
    if isinstance(o, (list, tuple, set, frozenset)):
        l = list(o)
        out = [jsonable(v, depth + 1) for v in l[:200]]
        if len(l) > 200:
            out.append('... %d more' % (len(l) - 200))
        return out
    if isinstance(o, slice):
        return 'slice(%r,%r,%r)' % (o.start, o.stop, o.step)
    if o is Ellipsis:
        return 'Ellipsis'
    return repr(o)[:300]


def digest(*parts):
    h = hashlib.blake2b(digest_size=8)
    for p in parts:
        if isinstance(p, bytes):
            h.update(p)
        elif isinstance(p, np.ndarray):
            h.update(str(p.dtype.kind).encode() + str(p.shape).encode())
            h.update(np.ascontiguousarray(p).tobytes())
        else:
            h.update(repr(p).encode('utf-8', 'replace'))
        h.update(b'|')
    return h.hexdigest()


class Ctx(object):
    """Per-worker recording context handed to a property's ``run``."""

    MAX_VIOL = 40

    def __init__(self, prop, tier, seed, shard=0, nshards=1, only_case=None,
                 tmpdir=None):
        self.prop = prop
        self.tier = tier
        self.seed = int(seed)
        self.shard = shard
        self.nshards = nshards
        self.only_case = only_case
        self.tmpdir = tmpdir
        self.counters = collections.Counter()
        self.classes = collections.Counter()
        self.distinct = set()
        self.distinct_extra = 0
        self.violations = []
        self.n_violations = 0
        self.samples = []
        self.notes = collections.Counter()
        self.refusals = collections.Counter()
        self.t0 = time.time()
        self.deadline = None

    # ---- case enumeration -------------------------------------------------
    def mine(self, case_id):
        if self.only_case is not None:
            return case_id == self.only_case
        return (hash_int(case_id) % self.nshards) == self.shard

    def cases(self, ids):
        """Yield (case_id, rng) for the case ids that belong to this shard.
        ``ids`` is an int (range) or an iterable of hashable, repr-stable ids."""
        if isinstance(ids, int):
            ids = range(ids)
        for cid in ids:
            if not self.mine(cid):
                continue
            if self.deadline is not None and time.time() > self.deadline:
                self.counters['cases_skipped_deadline'] += 1
                continue
            yield cid, self.rng(cid)

    def rng(self, case_id):
        return np.random.default_rng(
            np.random.SeedSequence([self.seed, prop_no(self.prop),
                                    hash_int(case_id, 0x5EED)]))

    # ---- recording --------------------------------------------------------
    def case_done(self, class_key=None, nontrivial=True, distinct_key=None,
                  sample=None):
        self.counters['cases'] += 1
        if class_key is not None:
            self.classes[str(class_key)] += 1
        if nontrivial:
            self.counters['nontrivial'] += 1
            if distinct_key is not None:
                self.distinct.add(distinct_key if isinstance(distinct_key, str)
                                  else digest(distinct_key))
            else:
                self.distinct_extra += 1
        if sample is not None and len(self.samples) < 4:
            self.samples.append(jsonable(sample))

    def check(self, ok, mechanism, case_id=None, **detail):
        """Record one oracle evaluation. Returns ``ok``."""
        self.counters['checks'] += 1
        self.counters['chk:' + mechanism.split(':')[0]] += 1
        if not ok:
            self.violation(mechanism, case_id, **detail)
        return bool(ok)

    def violation(self, mechanism, case_id=None, **detail):
        self.n_violations += 1
        self.counters['viol:' + mechanism] += 1
        # keep at most a few witnesses per mechanism
        if self.counters['kept:' + mechanism] < 3 and \
                len(self.violations) < self.MAX_VIOL:
            self.counters['kept:' + mechanism] += 1
            self.violations.append({
                'property': self.prop, 'mechanism': mechanism,
                'case_id': jsonable(case_id), 'tier': self.tier,
                'seed': self.seed, 'detail': jsonable(detail)})

    def note(self, what, k=1):
        self.notes[what] += k

    def refusal(self, what):
        self.refusals[what] += 1

    def result(self):
        return {
            'prop': self.prop, 'shard': self.shard,
            'counters': dict(self.counters), 'classes': dict(self.classes),
            'distinct': sorted(self.distinct)[:200000],
            'distinct_extra': self.distinct_extra,
            'violations': self.violations, 'n_violations': self.n_violations,
            'samples': self.samples, 'notes': dict(self.notes),
            'refusals': dict(self.refusals),
            'wall_s': time.time() - self.t0,
        }


def hash_int(x, salt=0):
    if isinstance(x, (int, np.integer)):
        v = int(x)
        # splitmix-like scramble, deterministic across processes
        z = (v + 0x9E3779B97F4A7C15 + salt) & 0xFFFFFFFFFFFFFFFF
        z = ((z ^ (z >> 30)) * 0xBF58476D1CE4E5B9) & 0xFFFFFFFFFFFFFFFF
        z = ((z ^ (z >> 27)) * 0x94D049BB133111EB) & 0xFFFFFFFFFFFFFFFF
        return (z ^ (z >> 31)) & 0x7FFFFFFF
    h = hashlib.blake2b(repr((x, salt)).encode(), digest_size=4).digest()
    return int.from_bytes(h, 'big') & 0x7FFFFFFF


class Outcome(object):
    """Result of running a callable: value or exception, plus warnings."""
    __slots__ = ('value', 'exc', 'warnings')

    def __init__(self, value=None, exc=None, warns=()):
        self.value = value
        self.exc = exc
        self.warnings = list(warns)

    @property
    def raised(self):
        return self.exc is not None


def attempt(fn, *a, **k):
    import warnings
    with warnings.catch_warnings(record=True) as w:
        warnings.simplefilter('always')
        try:
            v = fn(*a, **k)
            return Outcome(v, None, [str(x.message) for x in w])
        except Exception as e:   # noqa
            return Outcome(None, e, [str(x.message) for x in w])


def exc_str(e):
    return '%s: %s' % (type(e).__name__, str(e)[:300])


def tb_str(e):
    return ''.join(traceback.format_exception(type(e), e, e.__traceback__))[-1500:]


def arg_forms(lst):
    """Other legal spellings of a list argument (channel lists, override lists): the same elements in another
    container or element type.  -> [(form name, value)].  A form the library refuses is observed, not judged;
    a form it accepts must give the list form's answer."""
    import numpy as np
    lst = list(lst)
    out = [('tuple', tuple(lst))]
    ints = [isinstance(x, (int, np.integer)) and not isinstance(x, bool) for x in lst]
    strs = [isinstance(x, str) for x in lst]
    if lst and all(ints):
        out.append(('ndarray-int', np.array(lst, dtype=np.int64)))
        out.append(('ndarray-int32', np.array(lst, dtype=np.int32)))
    if lst and all(strs):
        out.append(('ndarray-str', np.array(lst)))
    if any(ints):
        out.append(('list-npint', [np.int64(x) if i else x for x, i in zip(lst, ints)]))
        out.append(('list-npintp', [np.intp(x) if i else x for x, i in zip(lst, ints)]))
    if any(strs):
        out.append(('list-npstr', [np.str_(x) if s else x for x, s in zip(lst, strs)]))
    return out


def pick_form(rng, lst):
    f = arg_forms(lst)
    return f[int(rng.integers(len(f)))]
