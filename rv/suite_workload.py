"""The repository's own test-suite as a workload *under* the monitors.

The tests are not used as an oracle (their assertions are ignored): they are a source of realistic call
sequences on the shipped FCS files, during which the attached monitors evaluate their own oracles."""
import io
import os
import contextlib

from rv import core


def run_repo_suite(ctx, mon, modules=('test_io.py', 'test_transform.py', 'test_gate.py', 'test_stats.py'), tag='repo-suite'):
    """Runs the repo's tests in-process (only on shard 0, or when replaying). Returns number of tests run."""
    if not (ctx.shard == 0 or ctx.only_case is not None):
        return 0
    import pytest
    root = core.repo_root()
    tdir = os.path.join(root, 'test')
    if not os.path.isdir(tdir):
        ctx.note('repo test directory not present in tree under verification')
        return 0
    old_cwd, old_tag, old_cid = os.getcwd(), mon.tag, mon.cid
    mon.tag, mon.cid = tag, (tag,)

    class Count(object):
        n = 0

        def pytest_runtest_logreport(self, report):
            if report.when == 'call':
                Count.n += 1
    os.chdir(root)
    buf = io.StringIO()
    try:
        with contextlib.redirect_stdout(buf), contextlib.redirect_stderr(buf):
            pytest.main(['-q', '-p', 'no:cacheprovider', '--rootdir', root, '-x' if False else '-q', '--no-header',
                         '-W', 'ignore'] + [os.path.join(tdir, m) for m in modules], plugins=[Count()])
    finally:
        os.chdir(old_cwd)
        mon.tag, mon.cid = old_tag, old_cid
    ctx.counters['repo_suite_tests_run_under_monitors'] += Count.n
    ctx.case_done(class_key=(tag,), nontrivial=True, distinct_key=core.digest(tag, modules))
    return Count.n
