"""One shard of one property check, run as a subprocess:
    python -m rv.worker <prop> <tier> <seed> <shard> <nshards> <out.json> [only_case_json]
"""
import faulthandler
import importlib
import json
import os
import shutil
import sys
import tempfile
import time


def main(argv):
    prop, tier, seed, shard, nshards, out = argv[:6]
    only = json.loads(argv[6]) if len(argv) > 6 else None
    if isinstance(only, list):
        only = tuple(only)
    budget = float(os.environ.get('RV_SHARD_BUDGET_S', '0') or 0)
    faulthandler.enable()
    wd = float(os.environ.get('RV_WATCHDOG_S', '0') or 0)
    if wd:
        faulthandler.dump_traceback_later(wd, exit=True)
    from rv import core
    base = '/dev/shm' if os.path.isdir('/dev/shm') and os.access('/dev/shm', os.W_OK) else None
    tmpdir = tempfile.mkdtemp(prefix='rv_%s_' % prop, dir=base)
    ctx = core.Ctx(prop, tier, int(seed), int(shard), int(nshards), only, tmpdir)
    if budget:
        ctx.deadline = time.time() + budget
    res = None
    try:
        FlowCal = core.import_flowcal()
        mod = importlib.import_module('rv.props.' + prop.lower())
        from rv import reach
        with reach.ReachCounter(core.repo_root()) as rc:
            mod.run(ctx)
        res = ctx.result()
        res['reach'] = rc.entered
        res['flowcal_file'] = FlowCal.__file__
        res['status'] = 'ok'
    except BaseException as e:   # harness failure => inconclusive, never "held"
        res = ctx.result()
        res['status'] = 'harness_error'
        res['error'] = core.tb_str(e)
    finally:
        shutil.rmtree(tmpdir, ignore_errors=True)
    with open(out, 'w') as f:
        json.dump(res, f)
    return 0


if __name__ == '__main__':
    sys.exit(main(sys.argv[1:]))
