"""Generators of FCS layout specifications (shared by C01, C16, C17, C20 ...)."""
import itertools
import struct

import numpy as np

VERSIONS = ('FCS2.0', 'FCS3.0', 'FCS3.1')
KINDS = ('I-uniform', 'I-mixed', 'F', 'D')
BYTEORDS = ('4,3,2,1', '2,1', '1,2,3,4', '1,2')
RANGEKINDS = ('pow2w', 'pow2small', 'nonpow2')
OFFSETS = ('header', 'text')
ENDS = ('last', 'onepast')
PADS = (0, 1)
ALLW = (8, 16, 24, 32, 40, 48, 56, 64)


def lattice():
    for cell in itertools.product(VERSIONS, KINDS, BYTEORDS, RANGEKINDS, OFFSETS, ENDS, PADS):
        if cell[0] == 'FCS2.0' and cell[4] == 'text':
            continue
        yield cell


def int_values(rng, w, n):
    """n values spanning width w, including 0, 2^w-1, high-bit and byte-distinct patterns."""
    top = (1 << w) - 1
    nb = w // 8
    distinct = int.from_bytes(bytes(range(1, nb + 1)), 'big')
    distinct2 = int.from_bytes(bytes(range(0xF1, 0xF1 + nb)), 'big')
    special = [0, top, 1 << (w - 1), int('AA' * nb, 16), int('55' * nb, 16), distinct,
               distinct2, 1, top - 1, (1 << (w - 1)) - 1]
    out = []
    for i in range(n):
        r = rng.random()
        if r < 0.55:
            out.append(special[int(rng.integers(len(special)))])
        elif r < 0.8:
            out.append(int.from_bytes(rng.bytes(nb), 'big'))
        else:
            out.append(int(rng.integers(0, min(top, 1023) + 1)))
    return out


F_SPECIAL = [0.0, -0.0, 1.0, -1.0, 1e-40, -1e-40, 3.4028234e38, -3.4028234e38, 1.17549435e-38,
             0.1, 262143.0, -123.456, 1e10, float('inf'), float('-inf')]
D_SPECIAL = [0.0, -0.0, 1.0, -1.0, 5e-324, -5e-324, 1.7976931348623157e308, 2.2250738585072014e-308,
             0.1, 1e-300, -1e300, 123456789.123456789, float('inf'), float('-inf')]


def float_values(rng, kind, n):
    sp = F_SPECIAL if kind == 'F' else D_SPECIAL
    out = []
    for i in range(n):
        r = rng.random()
        if r < 0.4:
            out.append(sp[int(rng.integers(len(sp)))])
        elif r < 0.7:
            out.append(float(rng.normal(0, 1000)))
        else:
            # random bit pattern that is not a NaN
            while True:
                if kind == 'F':
                    v = struct.unpack('<f', rng.bytes(4))[0]
                else:
                    v = struct.unpack('<d', rng.bytes(8))[0]
                if v == v:
                    break
            out.append(v)
    if kind == 'F':
        out = [struct.unpack('<f', struct.pack('<f', v))[0] for v in out]
    return out


def pick_range(rng, kind, w):
    if kind == 'pow2w':
        return 1 << w
    if kind == 'pow2small':
        return 1 << int(rng.integers(1, w + 1))
    # non power of two, exactly representable as a float (< 2^53)
    hi = min(w, 52)
    k = int(rng.integers(2, hi + 1))
    lo, top = (1 << (k - 1)) + 1, (1 << k) - 1
    if lo > top:
        return 3
    return int(rng.integers(lo, top + 1)) if top < 2**62 else lo


def make_spec(rng, cell, max_n=12, max_d=12, n=None, d=None):
    version, kind, byteord, rkind, offsets, end, pad = cell
    D = int(d if d is not None else rng.integers(1, max_d + 1))
    if n is None:
        N = int(rng.choice([0, 1, 2, 3, 5, max_n])) if rng.random() < 0.5 \
            else int(rng.integers(0, max_n + 1))
    else:
        N = n
    if kind == 'I-uniform':
        w = int(rng.choice(ALLW))
        widths = [w] * D
        datatype = 'I'
    elif kind == 'I-mixed':
        widths = [int(x) for x in rng.choice(ALLW, size=D)]
        if D > 1 and len(set(widths)) == 1:
            widths[0] = 8 if widths[0] != 8 else 24
        datatype = 'I'
    elif kind == 'F':
        widths, datatype = [32] * D, 'F'
    else:
        widths, datatype = [64] * D, 'D'
    if datatype == 'I':
        ranges = [pick_range(rng, rkind, w) for w in widths]
        cols = [int_values(rng, w, N) for w in widths]
    else:
        ranges = [pick_range(rng, rkind, 32) for w in widths]
        cols = [float_values(rng, datatype, N) for w in widths]
    events = [[cols[j][i] for j in range(D)] for i in range(N)]
    delim = str(rng.choice(list('/|\\!*,:;#\t\x0c\x1e')))
    spec = dict(version=version, datatype=datatype, widths=widths, events=events,
                byteord=byteord, ranges=ranges, delim=delim, offsets=offsets, end_conv=end,
                names=['Ch%d-%s' % (i + 1, 'AHW'[i % 3]) for i in range(D)])
    if pad:
        spec['pad_before_data'] = int(rng.integers(1, 40))
        spec['pad_after_data'] = int(rng.integers(0, 20))
        spec['text_begin'] = 58 + int(rng.integers(0, 200))
    if version != 'FCS2.0' and offsets == 'header' and rng.random() < 0.45:
        spec['text_offsets'] = 'zero' if rng.random() < 0.6 else 'other'
    if rng.random() < 0.3:
        spec['blank_analysis_header'] = True
    if rng.random() < 0.3:
        spec['key_order'] = 'shuffled'
        spec['rng'] = rng
    if rng.random() < 0.3:
        spec['pne'] = [str(rng.choice(['0,0', '4,1', '4.5,0', '0.0,0.0'])) for _ in range(D)]
    if rng.random() < 0.3:
        spec['extra'] = [('$CYT', 'rv-gen'), ('CUSTOM KEY', 'a value with spaces')]
    return spec


def describe(spec):
    d = {k: v for k, v in spec.items() if k not in ('events', 'rng')}
    d['n_events'] = len(spec['events'])
    d['events_head'] = spec['events'][:3]
    return d
