#!/bin/bash
# Offline setup: nothing to build (pure Python harness using /venv/bin/python and the repo's own deps).
cd "$(dirname "$0")"
/venv/bin/python -c "import numpy, scipy, sklearn, matplotlib, pandas, openpyxl, skimage; print('deps ok')"
mkdir -p evidence
