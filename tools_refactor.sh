#!/bin/bash
# usage: tools_refactor.sh <src_dir with patch.diff> <name> ["props"]
# Applies a behaviour-preserving refactoring to a scratch worktree and runs the quick checks: all must stay silent.
set -u
SRC="$(realpath "$1")"; NAME="$2"; PROPS="${3:-C01 C02 C03 C04 C05 C06 C07 C08 C09 C10 C11 C12 C13 C14 C15 C16 C17 C18 C19 C20}"
W=/dev/shm/refchk_$$
git -C /repo worktree add -q --detach "$W" HEAD || exit 3
trap 'git -C /repo worktree remove --force "$W" 2>/dev/null; rm -rf "$W"' EXIT
cd "$W"; git apply "$SRC/patch.diff" || { echo "patch does not apply"; exit 3; }
suite=$(/venv/bin/python -m pytest -q -p no:cacheprovider test 2>&1 | tail -1)
echo "REFACTOR $NAME suite='$suite' $(git diff --shortstat)"
cd /verif
for p in $PROPS; do
  out=$(RV_REPO="$W" RV_NO_EVIDENCE=1 ./check $p 2>&1); rc=$?
  echo "  $p rc=$rc $(echo "$out" | grep -E "observed mechanism|INCONCLUSIVE" | grep -v "known:" | head -3 | tr '\n' ';' | cut -c1-300)"
done
mkdir -p /verif/seeded/refactors/$NAME; cp "$SRC/patch.diff" /verif/seeded/refactors/$NAME/; [ -f "$SRC/notes.txt" ] && cp "$SRC/notes.txt" /verif/seeded/refactors/$NAME/
