#!/bin/bash
# Runs every catalogued mutant against the check of its property (from the file name cNN_ / or a map for reverts)
# and prints a kill matrix. usage: tools_matrix.sh [pattern]
cd /verif
declare -A REV
while read -r h p; do REV[$h]=$p; done <<'MAP'
a346684 C07
9f65ee1 C08
090d6fc C12
8db17a4 C12
2c2286a C12
a322fba C04
f124f94 C04
83dfa5b C13
b4360e6 C13
1b69d04 C13
bde83d7 C17
2c3b736 C17
a91d27e C17
199f3bd C11
386bda6 C15
473ad6d C08
fbabcdd C15
0a339c5 C15
MAP
for m in mutants/${1:-*}; do
  b=$(basename $m); b=${b%.*}
  if [[ $b == revert_* ]]; then p=${REV[${b#revert_}]}; elif [[ $b == c07_revert_f9 ]]; then p=C07; else p=C${b:1:2}; fi
  out=$(./tools_mutant.sh $m $p 2>&1)
  if echo "$out" | grep -q "^VIOLATION"; then r=KILLED; mech=$(echo "$out" | grep -m1 "^VIOLATION" | sed 's/.*mechanism=//' | cut -c1-60);
  elif echo "$out" | grep -q "^INCONCLUSIVE"; then r=INCONCLUSIVE; mech=$(echo "$out" | grep -m1 INCONC | cut -c1-90);
  elif echo "$out" | grep -q "PATCH FAILED"; then r=PATCHFAIL; mech=;
  else r=SURVIVED; mech=; fi
  echo "$b $p $r $mech"
done
