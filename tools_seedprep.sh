#!/bin/bash
# tools_seedprep.sh <ID e.g. C03g> <PROP e.g. C03> [twist-file] : scratch worktree + prompt for a blind seeding sub-agent.
# Prints the prompt (the sub-agent gets ONLY this text).  Worktrees live under /tmp/seed and are removed by the caller.
set -e
ID=$1; PROP=$2; TWIST=${3:-}
mkdir -p /tmp/seed/${ID}_out
git -C /repo worktree add --detach /tmp/seed/$ID HEAD >/dev/null 2>&1
/venv/bin/python - "$ID" "$PROP" "$TWIST" <<'PY'
import json, sys
ID, PROP, TWIST = sys.argv[1:4]
for l in open('/verif/properties.jsonl'):
    d = json.loads(l)
    if d['id'] == PROP:
        break
text = d.get('title', '') + '\n\n' + (d.get('statement') or d.get('text') or '')
open('/tmp/seed/%s_out/property.txt' % ID, 'w').write(text)
t = open('/tmp/seed/prompt_template.txt').read().replace('@ID@', ID).replace('@PROP@', text)
if TWIST:
    t += '\n\nADDITIONAL REQUIREMENT FOR THIS ROUND: ' + open(TWIST).read()
open('/tmp/seed/%s_out/prompt.txt' % ID, 'w').write(t)
PY
echo /tmp/seed/${ID}_out/prompt.txt
