#!/venv/bin/python
"""Regenerates MANIFEST.json from rv/props/*.py (LEVEL, TECHNIQUE, LEVEL_TEXT, ASSUMPTIONS)."""
import importlib, json, os, sys, glob
sys.path.insert(0, os.path.dirname(os.path.abspath(__file__)))
props = [json.loads(l) for l in open(os.path.join(os.path.dirname(__file__), 'properties.jsonl'))]
checks, na = [], []
for p in props:
    pid = p['id']
    f = os.path.join(os.path.dirname(__file__), 'rv', 'props', pid.lower() + '.py')
    if not os.path.exists(f):
        na.append({'property_id': pid, 'reason': 'check not built yet in this round (runtime-monitoring design in DESIGN.md section 5)'})
        continue
    src = open(f).read()
    ns = {}
    # read module constants without importing FlowCal
    import ast
    tree = ast.parse(src)
    for node in tree.body:
        if isinstance(node, ast.Assign) and isinstance(node.targets[0], ast.Name) and node.targets[0].id in (
                'LEVEL', 'TECHNIQUE', 'LEVEL_TEXT', 'ASSUMPTIONS', 'RULE'):
            ns[node.targets[0].id] = ast.literal_eval(node.value)
    doc = ast.get_docstring(tree) or ''
    checks.append({
        'property_id': pid,
        'quick_cmd': './check %s --tier quick' % pid,
        'thorough_cmd': './check %s --tier thorough' % pid,
        'evidence_file': 'evidence/%s.json' % pid,
        'replay_cmd_template': './check %s --replay {path}' % pid,
        'engine': 'rv',
        'level_claimed': {
            'category': ns.get('LEVEL', 'exploration'),
            'text': ns.get('LEVEL_TEXT') or ('Runtime monitoring: the real FlowCal functions are executed on generated workloads '
                     'and an independent oracle judges every execution; held on the executions observed, not a proof. '
                     + doc.split('\n')[0]),
            'design_ref': 'DESIGN.md section 5, ' + pid},
        'level_note': '; '.join(ns.get('ASSUMPTIONS', [])) or 'oracle independent of FlowCal; numpy/scipy trusted',
        'technique': ns.get('TECHNIQUE', 'runtime monitoring: reference-model oracle over generated executions'),
    })
man = {
    'version': 1,
    'setup_cmd': './setup.sh',
    'hooks': {'guard': 'FLOWCAL_VERIF',
              'enable': 'no source hooks: monitors attach from the harness (rv.core.import_flowcal sets FLOWCAL_VERIF=1 and '
                        'rebinds module/class attributes after importing FlowCal from /repo)',
              'baseline_off_cmd': 'cd /repo && /venv/bin/python -m pytest -ra -q -p no:cacheprovider --timeout=900 --continue-on-collection-errors',
              'source_commits': [], 'add_only': True},
    'engines': [{'name': 'rv', 'path': 'rv/', 'serves_properties': [c['property_id'] for c in checks],
                 'kind_free_text': 'runtime monitors (contracts at API boundary + reference models + history checkers) driven by generated workloads in worker subprocesses'}],
    'checks': checks,
    'not_applicable': na,
    'notes': 'Exit 0 held / 1 unlisted violation / 2 inconclusive. Known findings in known_findings.json keyed by mechanism.',
}
json.dump(man, open(os.path.join(os.path.dirname(__file__), 'MANIFEST.json'), 'w'), indent=1)
print('checks', len(checks), 'not_applicable', len(na))
